import Confuse.Lemmas.Erase
/-!
# The logs only grow

Every step of the token machine keeps the callback trace and the diagnostics it found as a suffix of
what it leaves: an invocation or a diagnostic, once made, is never retracted or reordered.
-/
namespace Confuse

/-- `b` extends `a` (newest-first lists: `a` is a suffix of `b`) -/
def Ext {α} (a b : List α) : Prop := ∃ c, b = c ++ a

theorem Ext.refl {α} (a : List α) : Ext a a := ⟨[], rfl⟩
theorem Ext.trans {α} {a b c : List α} (h1 : Ext a b) (h2 : Ext b c) : Ext a c := by
  obtain ⟨x, rfl⟩ := h1; obtain ⟨y, rfl⟩ := h2; exact ⟨y ++ x, by simp⟩
theorem Ext.app {α} (a c : List α) : Ext a (c ++ a) := ⟨c, rfl⟩

/-- the logs of `m'` extend those of `m` -/
def Grows (m m' : PM) : Prop := Ext m.trace m'.trace ∧ Ext m.diags m'.diags

theorem Grows.refl (m : PM) : Grows m m := ⟨Ext.refl _, Ext.refl _⟩
theorem Grows.trans {a b c : PM} (h1 : Grows a b) (h2 : Grows b c) : Grows a c := ⟨h1.1.trans h2.1, h1.2.trans h2.2⟩

theorem Ext.app' {α} {t u : List α} (a : List α) (h : Ext t u) : Ext t (a ++ u) := by
  obtain ⟨c, rfl⟩ := h; exact ⟨a ++ c, by simp⟩
theorem Ext.cons' {α} {t u : List α} (a : α) (h : Ext t u) : Ext t (a :: u) := by
  obtain ⟨c, rfl⟩ := h; exact ⟨a :: c, by simp⟩

macro "ext_tac" : tactic =>
  `(tactic| repeat (first | exact Ext.refl _ | apply Ext.app' | apply Ext.cons'))

macro "grows_auto" : tactic =>
  `(tactic| (simp only [Grows, PM.reject, PM.rejectWith, PM.addCalls, PM.addDiags, collapse, List.reverse_cons, List.reverse_nil, List.nil_append, List.map_cons, List.map_nil]
             repeat' split
             all_goals (constructor <;> ext_tac)))

theorem storeValue_grows (orc : Oracle) (m : PM) (f : Frame) (rest : List Frame) (v : Bytes) (next : PState) :
    Grows m (storeValue orc m f rest v next) := by
  unfold storeValue
  cases f.opt with
  | none => grows_auto
  | some r =>
    simp only []
    cases f.cfg.getOpt r with
    | none => grows_auto
    | some o =>
      simp only [runValid_spec]
      generalize setopt orc m.k f.cfg.info o (some v) = out
      cases out.res with
      | none => grows_auto
      | some i =>
        simp only []
        split
        · unfold vetoed
          repeat' split
          all_goals grows_auto
        · rename_i m2 hm2
          cases hv : validVerdict orc ((m.addCalls out.calls).addDiags { f with cfg := f.cfg.setOpt r out.opt, opt := some r } out.diags).k { f with cfg := f.cfg.setOpt r out.opt, opt := some r } with
          | none => simp [hv] at hm2
          | some cs =>
            simp only [hv, Option.map_some, Option.some.injEq] at hm2
            subst hm2
            grows_auto


theorem callFunction_grows (orc : Oracle) (m : PM) (f : Frame) (rest : List Frame) : Grows m (callFunction orc m f rest) := by
  unfold callFunction
  repeat' split
  all_goals grows_auto

/-- `match runValid … with | none => (vetoed …).reject … | some m1 => { m1 with frames := … }` grows -/
theorem validThen_grows (orc : Oracle) (m : PM) (g : Frame) (fs rs : List Frame) (g' : Frame) :
    Grows m (match (validVerdict orc m.k g).map m.addCalls with
      | none => (vetoed orc m g).reject g' rs
      | some m1 => { m1 with frames := fs }) := by
  cases validVerdict orc m.k g with
  | none =>
    simp only [Option.map_none]
    unfold vetoed
    repeat' split
    all_goals grows_auto
  | some cs => simp only [Option.map_some]; grows_auto


theorem step_s1_grows (orc : Oracle) (m : PM) (f : Frame) (rest : List Frame) (tok : Tok) : Grows m (step_s1 orc m f rest tok) := by
  unfold step_s1
  repeat' split
  all_goals grows_auto


theorem step_s5_grows (orc : Oracle) (m : PM) (f : Frame) (rest : List Frame) (tok : Tok) : Grows m (step_s5 orc m f rest tok) := by
  unfold step_s5
  repeat' split
  all_goals grows_auto


theorem step_s6_grows (orc : Oracle) (m : PM) (f : Frame) (rest : List Frame) (tok : Tok) : Grows m (step_s6 orc m f rest tok) := by
  unfold step_s6
  repeat' split
  all_goals grows_auto


theorem step_s7_grows (orc : Oracle) (m : PM) (f : Frame) (rest : List Frame) (tok : Tok) : Grows m (step_s7 orc m f rest tok) := by
  unfold step_s7
  repeat' split
  all_goals grows_auto


theorem step_s10_grows (orc : Oracle) (m : PM) (f : Frame) (rest : List Frame) (tok : Tok) : Grows m (step_s10 orc m f rest tok) := by
  unfold step_s10
  repeat' split
  all_goals grows_auto


theorem step_s11_grows (orc : Oracle) (m : PM) (f : Frame) (rest : List Frame) (tok : Tok) : Grows m (step_s11 orc m f rest tok) := by
  unfold step_s11
  repeat' split
  all_goals grows_auto


theorem step_s12_grows (orc : Oracle) (m : PM) (f : Frame) (rest : List Frame) (tok : Tok) : Grows m (step_s12 orc m f rest tok) := by
  unfold step_s12
  repeat' split
  all_goals grows_auto


theorem step_s13_grows (orc : Oracle) (m : PM) (f : Frame) (rest : List Frame) (tok : Tok) : Grows m (step_s13 orc m f rest tok) := by
  unfold step_s13
  repeat' split
  all_goals grows_auto


theorem step_s14_grows (orc : Oracle) (m : PM) (f : Frame) (rest : List Frame) (tok : Tok) : Grows m (step_s14 orc m f rest tok) := by
  unfold step_s14
  repeat' split
  all_goals grows_auto


theorem step_s3_grows (orc : Oracle) (m : PM) (f : Frame) (rest : List Frame) (tok : Tok) : Grows m (step_s3 orc m f rest tok) := by
  unfold step_s3
  cases tok with
  | str v => exact storeValue_grows orc m f rest v _
  | _ => grows_auto

theorem step_s2_grows (orc : Oracle) (m : PM) (f : Frame) (rest : List Frame) (tok : Tok) : Grows m (step_s2 orc m f rest tok) := by
  unfold step_s2
  cases tok with
  | str v => exact storeValue_grows orc m f rest v _
  | _ =>
    simp only []
    repeat' split
    all_goals grows_auto

theorem step_s8_grows (orc : Oracle) (m : PM) (f : Frame) (rest : List Frame) (tok : Tok) : Grows m (step_s8 orc m f rest tok) := by
  unfold step_s8
  cases tok with
  | rparen => exact callFunction_grows orc m f rest
  | _ => grows_auto

theorem step_s9_grows (orc : Oracle) (m : PM) (f : Frame) (rest : List Frame) (tok : Tok) : Grows m (step_s9 orc m f rest tok) := by
  unfold step_s9
  cases tok with
  | rparen => exact callFunction_grows orc m f rest
  | _ => grows_auto

theorem step_s4_grows (orc : Oracle) (m : PM) (f : Frame) (rest : List Frame) (tok : Tok) : Grows m (step_s4 orc m f rest tok) := by
  unfold step_s4
  cases tok with
  | rbrace =>
    simp only [runValid_spec]
    exact validThen_grows orc m f _ rest f
  | _ => grows_auto

theorem step_s0_grows (orc : Oracle) (m : PM) (f : Frame) (rest : List Frame) (tok : Tok) : Grows m (step_s0 orc m f rest tok) := by
  unfold step_s0
  simp only [handleDeprecated_spec]
  generalize depEffect f = e
  obtain ⟨ds, ev, f'⟩ := e
  simp only []
  have h0 : Grows m ((m.addDiags f ds).addCalls ev) := by grows_auto
  generalize (m.addDiags f ds).addCalls ev = m1 at h0 ⊢
  refine h0.trans ?_
  cases tok with
  | rbrace =>
    cases rest with
    | nil => grows_auto
    | cons p rs =>
      simp only []
      split
      · grows_auto
      · simp only [runValid_spec]
        exact validThen_grows orc m1 _ _ rs _
  | _ =>
    simp only []
    repeat' split
    all_goals grows_auto


theorem pstep_grows (orc : Oracle) (m : PM) (tok : Tok) (nl : Nat) : Grows m (pstep orc m tok nl) := by
  by_cases hrun : m.status = .running
  · cases hfr : m.frames with
    | nil =>
      have : pstep orc m tok nl = m := by unfold pstep; simp [hfr]
      rw [this]; exact Grows.refl m
    | cons f rest =>
      have hG : ∀ x : PM, Grows ({ m with frames := f.addLine nl :: rest } : PM) x → Grows m x := fun x h => h
      cases tok with
      | err e => rw [pstep_err orc m f rest e nl hrun hfr]; apply hG; grows_auto
      | eof =>
        rw [pstep_eof orc m f rest nl hrun hfr]
        apply hG
        split
        · grows_auto
        · simp only [handleDeprecated_spec]; grows_auto
      | comment v =>
        by_cases hs0 : f.state = .s0
        · rw [pstep_running orc m f rest _ nl hrun hfr rfl (Or.inr hs0)]
          simp only [hs0]
          exact hG _ (step_s0_grows orc _ _ rest _)
        · rw [pstep_comment_skip orc m f rest v nl hrun hfr hs0]; exact Grows.refl m
      | str v => rw [pstep_running orc m f rest _ nl hrun hfr rfl (Or.inl rfl)]; apply hG; cases f.state with
        | s0 => exact step_s0_grows orc _ _ rest _
        | s1 => exact step_s1_grows orc _ _ rest _
        | s2 => exact step_s2_grows orc _ _ rest _
        | s3 => exact step_s3_grows orc _ _ rest _
        | s4 => exact step_s4_grows orc _ _ rest _
        | s5 => exact step_s5_grows orc _ _ rest _
        | s6 => exact step_s6_grows orc _ _ rest _
        | s7 => exact step_s7_grows orc _ _ rest _
        | s8 => exact step_s8_grows orc _ _ rest _
        | s9 => exact step_s9_grows orc _ _ rest _
        | s10 => exact step_s10_grows orc _ _ rest _
        | s11 => exact step_s11_grows orc _ _ rest _
        | s12 => exact step_s12_grows orc _ _ rest _
        | s13 => exact step_s13_grows orc _ _ rest _
        | s14 => exact step_s14_grows orc _ _ rest _
      | lbrace => rw [pstep_running orc m f rest _ nl hrun hfr rfl (Or.inl rfl)]; apply hG; cases f.state with
        | s0 => exact step_s0_grows orc _ _ rest _
        | s1 => exact step_s1_grows orc _ _ rest _
        | s2 => exact step_s2_grows orc _ _ rest _
        | s3 => exact step_s3_grows orc _ _ rest _
        | s4 => exact step_s4_grows orc _ _ rest _
        | s5 => exact step_s5_grows orc _ _ rest _
        | s6 => exact step_s6_grows orc _ _ rest _
        | s7 => exact step_s7_grows orc _ _ rest _
        | s8 => exact step_s8_grows orc _ _ rest _
        | s9 => exact step_s9_grows orc _ _ rest _
        | s10 => exact step_s10_grows orc _ _ rest _
        | s11 => exact step_s11_grows orc _ _ rest _
        | s12 => exact step_s12_grows orc _ _ rest _
        | s13 => exact step_s13_grows orc _ _ rest _
        | s14 => exact step_s14_grows orc _ _ rest _
      | rbrace => rw [pstep_running orc m f rest _ nl hrun hfr rfl (Or.inl rfl)]; apply hG; cases f.state with
        | s0 => exact step_s0_grows orc _ _ rest _
        | s1 => exact step_s1_grows orc _ _ rest _
        | s2 => exact step_s2_grows orc _ _ rest _
        | s3 => exact step_s3_grows orc _ _ rest _
        | s4 => exact step_s4_grows orc _ _ rest _
        | s5 => exact step_s5_grows orc _ _ rest _
        | s6 => exact step_s6_grows orc _ _ rest _
        | s7 => exact step_s7_grows orc _ _ rest _
        | s8 => exact step_s8_grows orc _ _ rest _
        | s9 => exact step_s9_grows orc _ _ rest _
        | s10 => exact step_s10_grows orc _ _ rest _
        | s11 => exact step_s11_grows orc _ _ rest _
        | s12 => exact step_s12_grows orc _ _ rest _
        | s13 => exact step_s13_grows orc _ _ rest _
        | s14 => exact step_s14_grows orc _ _ rest _
      | lparen => rw [pstep_running orc m f rest _ nl hrun hfr rfl (Or.inl rfl)]; apply hG; cases f.state with
        | s0 => exact step_s0_grows orc _ _ rest _
        | s1 => exact step_s1_grows orc _ _ rest _
        | s2 => exact step_s2_grows orc _ _ rest _
        | s3 => exact step_s3_grows orc _ _ rest _
        | s4 => exact step_s4_grows orc _ _ rest _
        | s5 => exact step_s5_grows orc _ _ rest _
        | s6 => exact step_s6_grows orc _ _ rest _
        | s7 => exact step_s7_grows orc _ _ rest _
        | s8 => exact step_s8_grows orc _ _ rest _
        | s9 => exact step_s9_grows orc _ _ rest _
        | s10 => exact step_s10_grows orc _ _ rest _
        | s11 => exact step_s11_grows orc _ _ rest _
        | s12 => exact step_s12_grows orc _ _ rest _
        | s13 => exact step_s13_grows orc _ _ rest _
        | s14 => exact step_s14_grows orc _ _ rest _
      | rparen => rw [pstep_running orc m f rest _ nl hrun hfr rfl (Or.inl rfl)]; apply hG; cases f.state with
        | s0 => exact step_s0_grows orc _ _ rest _
        | s1 => exact step_s1_grows orc _ _ rest _
        | s2 => exact step_s2_grows orc _ _ rest _
        | s3 => exact step_s3_grows orc _ _ rest _
        | s4 => exact step_s4_grows orc _ _ rest _
        | s5 => exact step_s5_grows orc _ _ rest _
        | s6 => exact step_s6_grows orc _ _ rest _
        | s7 => exact step_s7_grows orc _ _ rest _
        | s8 => exact step_s8_grows orc _ _ rest _
        | s9 => exact step_s9_grows orc _ _ rest _
        | s10 => exact step_s10_grows orc _ _ rest _
        | s11 => exact step_s11_grows orc _ _ rest _
        | s12 => exact step_s12_grows orc _ _ rest _
        | s13 => exact step_s13_grows orc _ _ rest _
        | s14 => exact step_s14_grows orc _ _ rest _
      | eq => rw [pstep_running orc m f rest _ nl hrun hfr rfl (Or.inl rfl)]; apply hG; cases f.state with
        | s0 => exact step_s0_grows orc _ _ rest _
        | s1 => exact step_s1_grows orc _ _ rest _
        | s2 => exact step_s2_grows orc _ _ rest _
        | s3 => exact step_s3_grows orc _ _ rest _
        | s4 => exact step_s4_grows orc _ _ rest _
        | s5 => exact step_s5_grows orc _ _ rest _
        | s6 => exact step_s6_grows orc _ _ rest _
        | s7 => exact step_s7_grows orc _ _ rest _
        | s8 => exact step_s8_grows orc _ _ rest _
        | s9 => exact step_s9_grows orc _ _ rest _
        | s10 => exact step_s10_grows orc _ _ rest _
        | s11 => exact step_s11_grows orc _ _ rest _
        | s12 => exact step_s12_grows orc _ _ rest _
        | s13 => exact step_s13_grows orc _ _ rest _
        | s14 => exact step_s14_grows orc _ _ rest _
      | pluseq => rw [pstep_running orc m f rest _ nl hrun hfr rfl (Or.inl rfl)]; apply hG; cases f.state with
        | s0 => exact step_s0_grows orc _ _ rest _
        | s1 => exact step_s1_grows orc _ _ rest _
        | s2 => exact step_s2_grows orc _ _ rest _
        | s3 => exact step_s3_grows orc _ _ rest _
        | s4 => exact step_s4_grows orc _ _ rest _
        | s5 => exact step_s5_grows orc _ _ rest _
        | s6 => exact step_s6_grows orc _ _ rest _
        | s7 => exact step_s7_grows orc _ _ rest _
        | s8 => exact step_s8_grows orc _ _ rest _
        | s9 => exact step_s9_grows orc _ _ rest _
        | s10 => exact step_s10_grows orc _ _ rest _
        | s11 => exact step_s11_grows orc _ _ rest _
        | s12 => exact step_s12_grows orc _ _ rest _
        | s13 => exact step_s13_grows orc _ _ rest _
        | s14 => exact step_s14_grows orc _ _ rest _
      | comma => rw [pstep_running orc m f rest _ nl hrun hfr rfl (Or.inl rfl)]; apply hG; cases f.state with
        | s0 => exact step_s0_grows orc _ _ rest _
        | s1 => exact step_s1_grows orc _ _ rest _
        | s2 => exact step_s2_grows orc _ _ rest _
        | s3 => exact step_s3_grows orc _ _ rest _
        | s4 => exact step_s4_grows orc _ _ rest _
        | s5 => exact step_s5_grows orc _ _ rest _
        | s6 => exact step_s6_grows orc _ _ rest _
        | s7 => exact step_s7_grows orc _ _ rest _
        | s8 => exact step_s8_grows orc _ _ rest _
        | s9 => exact step_s9_grows orc _ _ rest _
        | s10 => exact step_s10_grows orc _ _ rest _
        | s11 => exact step_s11_grows orc _ _ rest _
        | s12 => exact step_s12_grows orc _ _ rest _
        | s13 => exact step_s13_grows orc _ _ rest _
        | s14 => exact step_s14_grows orc _ _ rest _
  · rw [pstep_stopped orc m tok nl hrun]; exact Grows.refl m

theorem parseToks_grows (orc : Oracle) (ts : List LTok) : ∀ m, Grows m (parseToks orc m ts) := by
  induction ts with
  | nil => intro m; exact Grows.refl m
  | cons t ts ih => intro m; rw [parseToks_cons]; exact (pstep_grows orc m t.1 t.2).trans (ih _)

end Confuse
