import Confuse.Spec.Numeral
namespace Confuse
open Confuse.Spec

theorem takeDigits_all (b : Nat) (ds : Bytes) (acc : Nat) (h : allDigits b ds = true) :
    takeDigits b acc ds = (ds.foldl (fun a c => a * b + digitVal c) acc, []) := by
  induction ds generalizing acc with
  | nil => simp [takeDigits]
  | cons c cs ih =>
    simp only [allDigits, List.all_cons, Bool.and_eq_true, decide_eq_true_eq] at h
    simp only [takeDigits, h.1, if_true, List.foldl_cons]
    exact ih _ (by simpa [allDigits] using h.2)

theorem takeDigits_notall (b : Nat) (ds : Bytes) (acc : Nat) (h : allDigits b ds = false) :
    (takeDigits b acc ds).2 ≠ [] := by
  induction ds generalizing acc with
  | nil => simp [allDigits] at h
  | cons c cs ih =>
    by_cases hc : digitVal c < b
    · simp only [takeDigits, hc, if_true]
      apply ih
      simpa [allDigits, hc] using h
    · simp [takeDigits, hc]

theorem takeDigits_length (b : Nat) (ds : Bytes) (acc : Nat) : (takeDigits b acc ds).2.length ≤ ds.length := by
  induction ds generalizing acc with
  | nil => simp [takeDigits]
  | cons c cs ih =>
    simp only [takeDigits]
    split
    · exact Nat.le_trans (ih _) (by simp)
    · simp

theorem digit_not_space_sign (c b : Nat) (hb : b ≤ 36) (h : digitVal c < b) :
    isSpaceC c = false ∧ c ≠ c_minus ∧ c ≠ c_plus ∧ 48 ≤ c := by
  unfold digitVal at h
  split at h
  · rename_i hd
    simp only [isDec, Bool.and_eq_true, decide_eq_true_eq] at hd
    simp only [isSpaceC, Bool.or_eq_false_iff, Bool.and_eq_false_iff, decide_eq_false_iff_not, beq_eq_false_iff_ne, ne_eq]
    omega
  · split at h
    · rename_i ha
      simp only [isAlpha, isUpper, isLower, Bool.or_eq_true, Bool.and_eq_true, decide_eq_true_eq] at ha
      simp only [isSpaceC, Bool.or_eq_false_iff, Bool.and_eq_false_iff, decide_eq_false_iff_not, beq_eq_false_iff_ne, ne_eq]
      omega
    · omega

theorem digitVal_x : digitVal 120 = 33 ∧ digitVal 88 = 33 := by decide

end Confuse

namespace Confuse
open Confuse.Spec

theorem dropWhile_space_digit (c : Nat) (cs : Bytes) (h : isSpaceC c = false) :
    (c :: cs).dropWhile isSpaceC = c :: cs := by simp [h]

theorem splitSign_digit (c : Nat) (cs : Bytes) (h1 : c ≠ c_minus) (h2 : c ≠ c_plus) :
    splitSign (c :: cs) = (false, c :: cs) := by simp [splitSign, h1, h2]

theorem hexPrefix_digits (base : Nat) (hb : base ≤ 16) (s : Bytes) (h : allDigits base s = true) :
    hexPrefix base s = false := by
  unfold hexPrefix
  match s, h with
  | [], _ => simp
  | [_], _ => simp
  | [_, _], _ => simp
  | _ :: x :: _ :: _, h =>
    have hx : digitVal x < base := by
      simp only [allDigits, List.all_cons, Bool.and_eq_true, decide_eq_true_eq] at h; exact h.2.1
    have : x ≠ 120 ∧ x ≠ 88 := by
      constructor <;> (intro e; subst e; have := digitVal_x; omega)
    simp [this.1, this.2]

/-- `strtol` on a non-empty string of digits of an explicit base 2, 8 or 16 -/
theorem strtol_digits (base : Nat) (hb : base = 2 ∨ base = 8 ∨ base = 16) (c : Nat) (cs : Bytes)
    (h : allDigits base (c :: cs) = true) :
    strtolC (c :: cs) base =
      (if digitsValue base (c :: cs) > 9223372036854775807 then ⟨longMax, [], true⟩
       else ⟨(digitsValue base (c :: cs) : Int), [], false⟩) := by
  have hb36 : base ≤ 36 := by omega
  have hc : digitVal c < base := by
    simp only [allDigits, List.all_cons, Bool.and_eq_true, decide_eq_true_eq] at h; exact h.1
  obtain ⟨hs, hm, hp, _⟩ := digit_not_space_sign c base hb36 hc
  have hb0 : (base == 0) = false := by rcases hb with h | h | h <;> subst h <;> rfl
  unfold strtolC
  rw [dropWhile_space_digit c cs hs, splitSign_digit c cs hm hp]
  simp only [hexPrefix_digits base (by omega) (c :: cs) h, hb0, Bool.false_eq_true, if_false]
  unfold strtolCore
  rw [takeDigits_all base (c :: cs) 0 h]
  simp [digitsValue]

theorem strtol_empty8 : strtolC [] 8 = ⟨0, [], false⟩ := by decide

end Confuse

namespace Confuse
open Confuse.Spec

theorem strtolCore_all (neg : Bool) (b : Nat) (s r : Bytes) (hne : r ≠ []) (h : allDigits b r = true) :
    strtolCore neg b s r =
      (if neg then (if digitsValue b r > 9223372036854775808 then ⟨longMin, [], true⟩ else ⟨-(digitsValue b r : Int), [], false⟩)
       else (if digitsValue b r > 9223372036854775807 then ⟨longMax, [], true⟩ else ⟨(digitsValue b r : Int), [], false⟩)) := by
  unfold strtolCore
  rw [takeDigits_all b r 0 h]
  have : r.length ≠ 0 := by cases r <;> simp_all
  simp [digitsValue, this]
  intro h0; exact absurd h0.symm (by omega)

theorem strtolCore_rest (neg : Bool) (b : Nat) (s r : Bytes) (hs : s ≠ []) (h : allDigits b r = false) :
    (strtolCore neg b s r).rest ≠ [] := by
  unfold strtolCore
  have := takeDigits_notall b r 0 h
  generalize takeDigits b 0 r = t at this ⊢
  by_cases h1 : (t.2.length == r.length) = true
  · rw [if_pos h1]; exact hs
  · rw [if_neg h1]
    cases neg
    · simp only [Bool.false_eq_true, if_false]
      split <;> exact this
    · simp only [if_true]
      split <;> exact this

end Confuse
