import Confuse.Lemmas.Quiet
/-!
# A schema without deprecated options stays one

`ndCfg c`: no option at any depth of the tree `c`, and no declaration it can still instantiate,
carries the DEPRECATED flag.  Every operation of the store and of the token machine preserves it.
-/
namespace Confuse

mutual
def ndDecl : Decl → Bool
  | .mk _ f subs => !f.deprecated && ndDecls subs
def ndDecls : List Decl → Bool
  | [] => true
  | d :: ds => ndDecl d && ndDecls ds
end

mutual
def ndVal : Val → Bool
  | .sec c => ndCfg c
  | _ => true
def ndVals : List Val → Bool
  | [] => true
  | v :: vs => ndVal v && ndVals vs
def ndOpt : Opt → Bool
  | .mk _ f subs vs _ => !f.deprecated && ndDecls subs && ndVals vs
def ndOpts : List Opt → Bool
  | [] => true
  | o :: os => ndOpt o && ndOpts os
def ndCfg : Cfg → Bool
  | .mk _ os => ndOpts os
end

theorem ndVals_all (vs : List Val) : ndVals vs = vs.all ndVal := by
  induction vs with
  | nil => rfl
  | cons v vs ih => simp [ndVals, ih]

theorem ndOpts_all (os : List Opt) : ndOpts os = os.all ndOpt := by
  induction os with
  | nil => rfl
  | cons o os ih => simp [ndOpts, ih]

theorem ndOpt_iff (o : Opt) : ndOpt o = true ↔ o.flags.deprecated = false ∧ ndDecls o.subs = true ∧ ndVals o.vals = true := by
  cases o; simp [ndOpt, Opt.flags, Opt.subs, Opt.vals, and_assoc]

theorem ndCfg_iff (c : Cfg) : ndCfg c = true ↔ ndOpts c.opts = true := by cases c; simp [ndCfg, Cfg.opts]

theorem ndVals_append (a b : List Val) : ndVals (a ++ b) = (ndVals a && ndVals b) := by
  simp [ndVals_all, List.all_append]
theorem ndOpts_append (a b : List Opt) : ndOpts (a ++ b) = (ndOpts a && ndOpts b) := by
  simp [ndOpts_all, List.all_append]

theorem all_listSet {α} (p : α → Bool) (l : List α) (i : Nat) (y : α) (hl : l.all p = true) (hy : p y = true) :
    (listSet l i y).all p = true := by
  induction l generalizing i with
  | nil => simp [listSet]
  | cons x xs ih =>
    simp only [List.all_cons, Bool.and_eq_true] at hl
    cases i with
    | zero => simp [listSet, hy, hl.2]
    | succ n => simp [listSet, hl.1, ih n hl.2]

theorem all_get {α} (p : α → Bool) (l : List α) (i : Nat) (x : α) (hl : l.all p = true) (h : l[i]? = some x) : p x = true := by
  have := List.mem_of_getElem? h
  exact (List.all_eq_true.1 hl) x this

/-! ### creation -/

theorem convTok_nd (ty : Ty) (tok : Bytes) (v : Val) (h : convTok ty tok = some v) : ndVal v = true := by
  unfold convTok at h
  cases ty <;> simp only [] at h
  · split at h <;> simp at h; subst h; rfl
  · split at h <;> simp at h; subst h; rfl
  · simp at h; subst h; rfl
  · simp only [Option.map_eq_some_iff] at h; obtain ⟨b, _, rfl⟩ := h; rfl
  all_goals simp at h

theorem defaults_nd (ty : Ty) (toks : List Bytes) : ndVals (toks.filterMap (convTok ty)) = true := by
  rw [ndVals_all, List.all_eq_true]
  intro v hv
  obtain ⟨t, _, ht⟩ := List.mem_filterMap.1 hv
  exact convTok_nd ty t v ht

theorem defaults_nd1 (ty : Ty) (toks : List Bytes) : ndVals ((toks.filterMap (convTok ty)).reverse.take 1) = true := by
  rw [ndVals_all, List.all_eq_true]
  intro v hv
  have := List.mem_of_mem_take hv
  have := List.mem_reverse.1 this
  obtain ⟨t, _, ht⟩ := List.mem_filterMap.1 this
  exact convTok_nd ty t v ht


mutual
theorem mkOpt_nd (ci : CfgInfo) : ∀ d : Decl, ndDecl d = true → ndOpt (mkOpt ci d) = true
  | .mk info flags subs => by
    intro h
    simp only [ndDecl, Bool.and_eq_true, Bool.not_eq_true'] at h
    have hsub := mkOpts_nd (sectionInfo ci info.name flags none) subs h.2
    unfold mkOpt
    repeat' split
    all_goals simp [ndOpt, ndVals, ndVal, ndCfg, h.1, h.2, hsub, defaults_nd, defaults_nd1]
theorem mkOpts_nd (ci : CfgInfo) : ∀ ds : List Decl, ndDecls ds = true → ndOpts (mkOpts ci ds) = true
  | [] => by intro _; rfl
  | d :: ds => by
    intro h
    simp only [ndDecls, Bool.and_eq_true] at h
    simp [mkOpts, ndOpts, mkOpt_nd ci d h.1, mkOpts_nd ci ds h.2]
end

theorem mkSection_nd (ci : CfgInfo) (o : Opt) (t : Option Bytes) (h : ndOpt o = true) : ndCfg (mkSection ci o t) = true := by
  unfold mkSection
  simp only [ndCfg]
  exact mkOpts_nd _ _ ((ndOpt_iff o).1 h).2.1

theorem cfgInit_nd (decls : List Decl) (flags : Flags) (h : ndDecls decls = true) : ndCfg (cfgInit decls flags) = true := by
  unfold cfgInit; simp only [ndCfg]; exact mkOpts_nd _ _ h

/-! ### the lens -/

theorem child_nd (c : Cfg) (oi ii : Nat) (s : Cfg) (h : ndCfg c = true) (hc : c.child oi ii = some s) : ndCfg s = true := by
  unfold Cfg.child at hc
  cases ho : c.opts[oi]? with
  | none => simp [ho] at hc
  | some o =>
    simp only [ho] at hc
    cases hv : o.vals[ii]? with
    | none => simp [hv] at hc
    | some v =>
      simp only [hv] at hc
      cases v <;> simp at hc
      subst hc
      have h1 : ndOpt o = true := all_get ndOpt c.opts oi o (by rw [← ndOpts_all]; exact (ndCfg_iff c).1 h) ho
      have h2 := ((ndOpt_iff o).1 h1).2.2
      have := all_get ndVal o.vals ii _ (by rw [← ndVals_all]; exact h2) hv
      simpa [ndVal] using this

theorem getOptAt_nd : ∀ (steps : List (Nat × Nat)) (c : Cfg) (leaf : Nat) (o : Opt), ndCfg c = true →
    getOptAt c steps leaf = some o → ndOpt o = true := by
  intro steps
  induction steps with
  | nil =>
    intro c leaf o h hg
    simp only [getOptAt] at hg
    exact all_get ndOpt c.opts leaf o (by rw [← ndOpts_all]; exact (ndCfg_iff c).1 h) hg
  | cons st rest ih =>
    intro c leaf o h hg
    obtain ⟨oi, ii⟩ := st
    simp only [getOptAt] at hg
    cases hc : c.child oi ii with
    | none => simp [hc] at hg
    | some s => simp only [hc] at hg; exact ih s leaf o (child_nd c oi ii s h hc) hg

theorem getOpt_nd (c : Cfg) (r : OptRef) (o : Opt) (h : ndCfg c = true) (hg : c.getOpt r = some o) : ndOpt o = true :=
  getOptAt_nd r.steps c r.leaf o h hg

theorem setOpts_nd (c : Cfg) (os : List Opt) (h : ndOpts os = true) : ndCfg (c.setOpts os) = true := by
  cases c; simpa [Cfg.setOpts, ndCfg] using h

theorem setVals_nd (o : Opt) (vs : List Val) (h : ndOpt o = true) (hv : ndVals vs = true) : ndOpt (o.setVals vs) = true := by
  have := (ndOpt_iff o).1 h
  rw [ndOpt_iff]
  cases o
  exact ⟨this.1, this.2.1, hv⟩

theorem setChild_nd (c : Cfg) (oi ii : Nat) (s : Cfg) (h : ndCfg c = true) (hs : ndCfg s = true) : ndCfg (c.setChild oi ii s) = true := by
  unfold Cfg.setChild
  cases ho : c.opts[oi]? with
  | none => exact h
  | some o =>
    simp only []
    have hos : c.opts.all ndOpt = true := by rw [← ndOpts_all]; exact (ndCfg_iff c).1 h
    have h1 : ndOpt o = true := all_get ndOpt c.opts oi o hos ho
    refine setOpts_nd _ _ ?_
    rw [ndOpts_all]
    refine all_listSet _ _ _ _ hos (setVals_nd o _ h1 ?_)
    rw [ndVals_all]
    exact all_listSet _ _ _ _ (by rw [← ndVals_all]; exact ((ndOpt_iff o).1 h1).2.2) (by simpa [ndVal] using hs)

theorem updOptAt_nd (g : Opt → Opt) (hg : ∀ o, ndOpt o = true → ndOpt (g o) = true) :
    ∀ (steps : List (Nat × Nat)) (c : Cfg) (leaf : Nat), ndCfg c = true → ndCfg (updOptAt g c steps leaf) = true := by
  intro steps
  induction steps with
  | nil =>
    intro c leaf h
    simp only [updOptAt]
    cases ho : c.opts[leaf]? with
    | none => exact h
    | some o =>
      simp only []
      have hos : c.opts.all ndOpt = true := by rw [← ndOpts_all]; exact (ndCfg_iff c).1 h
      refine setOpts_nd _ _ ?_
      rw [ndOpts_all]
      exact all_listSet _ _ _ _ hos (hg o (all_get ndOpt c.opts leaf o hos ho))
  | cons st rest ih =>
    intro c leaf h
    obtain ⟨oi, ii⟩ := st
    simp only [updOptAt]
    cases hc : c.child oi ii with
    | none => exact h
    | some s => exact setChild_nd c oi ii _ h (ih s leaf (child_nd c oi ii s h hc))

theorem setOpt_nd (c : Cfg) (r : OptRef) (o : Opt) (h : ndCfg c = true) (ho : ndOpt o = true) : ndCfg (c.setOpt r o) = true :=
  updOptAt_nd (fun _ => o) (fun _ _ => ho) r.steps c r.leaf h

theorem setInfo_nd (c : Cfg) (i : CfgInfo) (h : ndCfg c = true) : ndCfg (c.setInfo i) = true := by
  cases c; simpa [Cfg.setInfo, ndCfg, Cfg.opts] using h

theorem setLine_nd (c : Cfg) (n : Nat) (h : ndCfg c = true) : ndCfg (c.setLine n) = true := setInfo_nd c _ h

/-! ### the store -/

theorem nd_of_parts (i : OptInfo) (f : Flags) (subs : List Decl) (vs : List Val) (c : Option Bytes)
    (h1 : f.deprecated = false) (h2 : ndDecls subs = true) (h3 : ndVals vs = true) : ndOpt (.mk i f subs vs c) = true := by
  simp [ndOpt, h1, h2, h3]

theorem freeValue_nd (o : Opt) (h : ndOpt o = true) : ndOpt (freeValue o).1 = true := by
  have := (ndOpt_iff o).1 h
  unfold freeValue
  exact nd_of_parts _ _ _ _ _ this.1 this.2.1 rfl

theorem dropDefaults_nd (o : Opt) (h : ndOpt o = true) : ndOpt (dropDefaults o).1 = true := by
  unfold dropDefaults
  split
  · have := (ndOpt_iff _).1 (freeValue_nd o h)
    unfold Opt.setFlags
    exact nd_of_parts _ _ _ _ _ (by simpa using this.1) this.2.1 this.2.2
  · exact h

theorem setoptStore_nd (ci : CfgInfo) (o1 : Opt) (cv : Conv) (v : Option Bytes) (app : Bool) (found : Option Nat)
    (h : ndOpt o1 = true) : ndVals (setoptStore ci o1 cv v app found).2.1 = true := by
  have hp := (ndOpt_iff o1).1 h
  have hvs : o1.vals.all ndVal = true := by rw [← ndVals_all]; exact hp.2.2
  unfold setoptStore
  simp only []
  have hnv : ∀ (old : Option Val), (∀ x, old = some x → ndVal x = true) → ndVal (match cv with
      | .int v => Val.int v | .flt b => .flt b | .bool b => .bool b | .str s => .str (some s) | .ptr p => .ptr p
      | .sec => (match old with
        | some (.sec c) => if o1.flags.multi then .sec (mkSection ci o1 v) else .sec c
        | _ => .sec (mkSection ci o1 v))) = true := by
    intro old hold
    cases cv with
    | sec =>
      simp only []
      split
      · rename_i c
        split
        · simpa [ndVal] using mkSection_nd ci o1 v h
        · exact hold _ rfl
      · simpa [ndVal] using mkSection_nd ci o1 v h
    | _ => rfl
  split
  · rename_i hnew
    rw [ndVals_append]
    simp only [Bool.and_eq_true]
    refine ⟨hp.2.2, ?_⟩
    simp only [ndVals, Bool.and_true]
    exact hnv none (fun x hx => by simp at hx)
  · rename_i hnew
    rw [ndVals_all]
    refine all_listSet _ _ _ _ hvs ?_
    refine hnv _ ?_
    intro x hx
    exact all_get ndVal o1.vals _ x hvs hx

theorem setopt_nd (orc : Oracle) (k : Nat) (ci : CfgInfo) (o : Opt) (v : Option Bytes) (h : ndOpt o = true) :
    ndOpt (setopt orc k ci o v).opt = true := by
  unfold setopt
  cases setoptConvert orc k o v with
  | error e => exact h
  | ok p =>
    simp only []
    have hd := dropDefaults_nd o h
    generalize dropDefaults o = dd at hd ⊢
    obtain ⟨o1, ev1⟩ := dd
    simp only [] at hd ⊢
    refine setOut_ite' (fun s => ndOpt s.opt = true) _ _ _ hd (setOut_ite' (fun s => ndOpt s.opt = true) _ _ _ hd ?_)
    have hp := (ndOpt_iff o1).1 hd
    exact nd_of_parts _ _ _ _ _ (by simpa using hp.1) hp.2.1 (setoptStore_nd ci o1 p.1 v _ _ hd)

theorem inheritComment_nd (f : Frame) (h : ndCfg f.cfg = true) : ndCfg (inheritComment f).cfg = true := by
  unfold inheritComment
  cases f.comment with
  | none => exact h
  | some c =>
    cases hopt : f.opt with
    | none => exact h
    | some r =>
      simp only []
      cases hget : f.cfg.getOpt r with
      | none => exact h
      | some o =>
        have hp := (ndOpt_iff o).1 (getOpt_nd f.cfg r o h hget)
        exact setOpt_nd _ _ _ h (nd_of_parts _ _ _ _ _ (by simpa using hp.1) hp.2.1 hp.2.2)

theorem writeBack_nd (p c : Frame) (hp : ndCfg p.cfg = true) (hc : ndCfg c.cfg = true) : ndCfg (writeBack p c).cfg = true := by
  unfold writeBack
  cases c.back with
  | none => exact hp
  | some ri =>
    obtain ⟨r, i⟩ := ri
    simp only []
    cases hget : p.cfg.getOpt r with
    | none => exact hp
    | some o =>
      have ho := getOpt_nd p.cfg r o hp hget
      refine setOpt_nd _ _ _ hp (setVals_nd o _ ho ?_)
      rw [ndVals_all]
      exact all_listSet _ _ _ _ (by rw [← ndVals_all]; exact ((ndOpt_iff o).1 ho).2.2) (by simpa [ndVal] using hc)

theorem depEffect_nd_none (f : Frame) (h : ndCfg f.cfg = true) : depEffect f = ([], [], f) := by
  unfold depEffect
  cases hopt : f.opt with
  | none => rfl
  | some r =>
    simp only []
    cases hget : f.cfg.getOpt r with
    | none => rfl
    | some o =>
      have := ((ndOpt_iff o).1 (getOpt_nd f.cfg r o h hget)).1
      simp [this]

end Confuse
