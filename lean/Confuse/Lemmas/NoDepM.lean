import Confuse.Lemmas.NoDep
/-!
# The token machine keeps a schema free of deprecated options free of them, and then says nothing
-/
namespace Confuse

def NDM (m : PM) : Prop := m.status = .running → ∀ f ∈ m.frames, ndCfg f.cfg = true

theorem ndm_stop (m : PM) (h : m.status ≠ .running) : NDM m := fun hr => absurd hr h

theorem ndm_reject (m : PM) (f : Frame) (rest : List Frame) : NDM (m.reject f rest) :=
  ndm_stop _ (by simp)
theorem ndm_rejectWith (m : PM) (f : Frame) (rest : List Frame) (c : DiagCls) : NDM (m.rejectWith f rest c) :=
  ndm_stop _ (by simp [PM.rejectWith])

theorem ndm_run (m' : PM) (g : Frame) (rest : List Frame) (hfr : m'.frames = g :: rest) (hg : ndCfg g.cfg = true)
    (hr : ∀ p ∈ rest, ndCfg p.cfg = true) : NDM m' := by
  intro _ f hf
  rw [hfr] at hf
  rcases List.mem_cons.1 hf with rfl | hf
  · exact hg
  · exact hr f hf

macro "ndm_auto" hf:ident hr:ident : tactic =>
  `(tactic| (try simp only []
             repeat' (split <;> try simp only [])
             all_goals first
               | exact ndm_reject _ _ _
               | exact ndm_rejectWith _ _ _ _
               | exact ndm_run _ _ _ rfl $hf $hr))

theorem storeValue_ndm (orc : Oracle) (m : PM) (f : Frame) (rest : List Frame) (v : Bytes) (next : PState)
    (hf : ndCfg f.cfg = true) (hr : ∀ p ∈ rest, ndCfg p.cfg = true) : NDM (storeValue orc m f rest v next) := by
  unfold storeValue
  cases hopt : f.opt with
  | none => exact ndm_reject _ _ _
  | some r =>
    simp only []
    cases hget : f.cfg.getOpt r with
    | none => exact ndm_reject _ _ _
    | some o =>
      simp only [runValid_spec]
      have ho := setopt_nd orc m.k f.cfg.info o (some v) (getOpt_nd f.cfg r o hf hget)
      generalize setopt orc m.k f.cfg.info o (some v) = out at ho ⊢
      have hf1 : ndCfg ({ f with cfg := f.cfg.setOpt r out.opt, opt := some r } : Frame).cfg = true := setOpt_nd _ _ _ hf ho
      generalize ({ f with cfg := f.cfg.setOpt r out.opt, opt := some r } : Frame) = f1 at hf1 ⊢
      cases out.res with
      | none => exact ndm_reject _ _ _
      | some i =>
        simp only []
        split
        · exact ndm_reject _ _ _
        · exact ndm_run _ _ rest rfl (inheritComment_nd f1 hf1) hr

theorem callFunction_ndm (orc : Oracle) (m : PM) (f : Frame) (rest : List Frame)
    (hf : ndCfg f.cfg = true) (hr : ∀ p ∈ rest, ndCfg p.cfg = true) : NDM (callFunction orc m f rest) := by
  unfold callFunction
  ndm_auto hf hr

theorem step_s1_ndm (orc : Oracle) (m : PM) (f : Frame) (rest : List Frame) (tok : Tok)
    (hf : ndCfg f.cfg = true) (hr : ∀ p ∈ rest, ndCfg p.cfg = true) : NDM (step_s1 orc m f rest tok) := by
  unfold step_s1
  cases hopt : f.opt with
  | none => exact ndm_reject _ _ _
  | some r =>
    simp only []
    cases hget : f.cfg.getOpt r with
    | none => exact ndm_reject _ _ _
    | some o =>
      simp only []
      have hp := (ndOpt_iff o).1 (getOpt_nd f.cfg r o hf hget)
      have hgo : ∀ reset : Bool, ndCfg (f.cfg.setOpt r (o.setFlags { o.flags with reset := reset, modified := true })) = true := by
        intro reset
        refine setOpt_nd _ _ _ hf ?_
        unfold Opt.setFlags
        exact nd_of_parts _ _ _ _ _ (by simpa using hp.1) hp.2.1 hp.2.2
      cases tok with
      | pluseq => simp only []; split; exact ndm_rejectWith _ _ _ _; exact ndm_run _ _ rest rfl (hgo false) hr
      | eq => exact ndm_run _ _ rest rfl (hgo true) hr
      | _ => exact ndm_rejectWith _ _ _ _

theorem step_s2_ndm (orc : Oracle) (m : PM) (f : Frame) (rest : List Frame) (tok : Tok)
    (hf : ndCfg f.cfg = true) (hr : ∀ p ∈ rest, ndCfg p.cfg = true) : NDM (step_s2 orc m f rest tok) := by
  unfold step_s2
  cases tok with
  | str v => exact storeValue_ndm orc m f rest v _ hf hr
  | rbrace =>
    simp only []
    repeat' (split <;> try simp only [])
    all_goals first
      | exact ndm_rejectWith _ _ _ _
      | exact ndm_run _ _ rest rfl hf hr
      | (refine ndm_run _ _ rest rfl ?_ hr
         rename_i r o hopt hb _
         rw [hopt] at hb
         exact setOpt_nd _ _ _ hf (freeValue_nd o (getOpt_nd f.cfg r o hf hb)))
  | _ => exact ndm_rejectWith _ _ _ _

theorem step_s6_ndm (orc : Oracle) (m : PM) (f : Frame) (rest : List Frame) (tok : Tok)
    (hf : ndCfg f.cfg = true) (hr : ∀ p ∈ rest, ndCfg p.cfg = true) : NDM (step_s6 orc m f rest tok) := by
  unfold step_s6
  ndm_auto hf hr

theorem step_s7_ndm (orc : Oracle) (m : PM) (f : Frame) (rest : List Frame) (tok : Tok)
    (hf : ndCfg f.cfg = true) (hr : ∀ p ∈ rest, ndCfg p.cfg = true) : NDM (step_s7 orc m f rest tok) := by
  unfold step_s7
  ndm_auto hf hr

theorem step_s10_ndm (orc : Oracle) (m : PM) (f : Frame) (rest : List Frame) (tok : Tok)
    (hf : ndCfg f.cfg = true) (hr : ∀ p ∈ rest, ndCfg p.cfg = true) : NDM (step_s10 orc m f rest tok) := by
  unfold step_s10
  ndm_auto hf hr

theorem step_s11_ndm (orc : Oracle) (m : PM) (f : Frame) (rest : List Frame) (tok : Tok)
    (hf : ndCfg f.cfg = true) (hr : ∀ p ∈ rest, ndCfg p.cfg = true) : NDM (step_s11 orc m f rest tok) := by
  unfold step_s11
  ndm_auto hf hr

theorem step_s14_ndm (orc : Oracle) (m : PM) (f : Frame) (rest : List Frame) (tok : Tok)
    (hf : ndCfg f.cfg = true) (hr : ∀ p ∈ rest, ndCfg p.cfg = true) : NDM (step_s14 orc m f rest tok) := by
  unfold step_s14
  ndm_auto hf hr

theorem step_s12_ndm (orc : Oracle) (m : PM) (f : Frame) (rest : List Frame) (tok : Tok) (hm : m.frames = f :: rest)
    (hf : ndCfg f.cfg = true) (hr : ∀ p ∈ rest, ndCfg p.cfg = true) : NDM (step_s12 orc m f rest tok) := by
  unfold step_s12
  try simp only []
  repeat' (split <;> try simp only [])
  all_goals first
    | exact ndm_run _ _ _ rfl hf hr
    | exact ndm_run _ _ _ hm hf hr

theorem step_s13_ndm (orc : Oracle) (m : PM) (f : Frame) (rest : List Frame) (tok : Tok) (hm : m.frames = f :: rest)
    (hf : ndCfg f.cfg = true) (hr : ∀ p ∈ rest, ndCfg p.cfg = true) : NDM (step_s13 orc m f rest tok) := by
  unfold step_s13
  try simp only []
  repeat' (split <;> try simp only [])
  all_goals first
    | exact ndm_run _ _ _ rfl hf hr
    | exact ndm_run _ _ _ hm hf hr

theorem step_s3_ndm (orc : Oracle) (m : PM) (f : Frame) (rest : List Frame) (tok : Tok)
    (hf : ndCfg f.cfg = true) (hr : ∀ p ∈ rest, ndCfg p.cfg = true) : NDM (step_s3 orc m f rest tok) := by
  unfold step_s3
  cases tok with
  | str v => exact storeValue_ndm orc m f rest v _ hf hr
  | _ => ndm_auto hf hr

theorem step_s8_ndm (orc : Oracle) (m : PM) (f : Frame) (rest : List Frame) (tok : Tok)
    (hf : ndCfg f.cfg = true) (hr : ∀ p ∈ rest, ndCfg p.cfg = true) : NDM (step_s8 orc m f rest tok) := by
  unfold step_s8
  cases tok with
  | rparen => exact callFunction_ndm orc m f rest hf hr
  | _ => ndm_auto hf hr

theorem step_s9_ndm (orc : Oracle) (m : PM) (f : Frame) (rest : List Frame) (tok : Tok)
    (hf : ndCfg f.cfg = true) (hr : ∀ p ∈ rest, ndCfg p.cfg = true) : NDM (step_s9 orc m f rest tok) := by
  unfold step_s9
  cases tok with
  | rparen => exact callFunction_ndm orc m f rest hf hr
  | _ => ndm_auto hf hr

theorem step_s4_ndm (orc : Oracle) (m : PM) (f : Frame) (rest : List Frame) (tok : Tok)
    (hf : ndCfg f.cfg = true) (hr : ∀ p ∈ rest, ndCfg p.cfg = true) : NDM (step_s4 orc m f rest tok) := by
  unfold step_s4
  cases tok with
  | rbrace =>
    simp only [runValid_spec]
    cases validVerdict orc m.k f with
    | none => exact ndm_reject _ _ _
    | some cs => exact ndm_run _ _ rest rfl hf hr
  | _ => ndm_auto hf hr

theorem step_s5_ndm (orc : Oracle) (m : PM) (f : Frame) (rest : List Frame) (tok : Tok)
    (hf : ndCfg f.cfg = true) (hr : ∀ p ∈ rest, ndCfg p.cfg = true) : NDM (step_s5 orc m f rest tok) := by
  unfold step_s5
  cases tok with
  | lbrace =>
    simp only []
    cases hopt : f.opt with
    | none => exact ndm_reject _ _ _
    | some r =>
      simp only [Option.bind_some]
      cases hget : f.cfg.getOpt r with
      | none => exact ndm_reject _ _ _
      | some o =>
        simp only []
        have ho := setopt_nd orc m.k f.cfg.info o f.opttitle (getOpt_nd f.cfg r o hf hget)
        generalize setopt orc m.k f.cfg.info o f.opttitle = out at ho ⊢
        have hf1 : ndCfg (f.cfg.setOpt r out.opt) = true := setOpt_nd _ _ _ hf ho
        cases out.res with
        | none => exact ndm_reject _ _ _
        | some i =>
          simp only []
          cases hv : out.opt.vals[i]? with
          | none => exact ndm_reject _ _ _
          | some v =>
            cases v with
            | sec s =>
              simp only []
              have hs : ndCfg s = true := by
                have := all_get ndVal out.opt.vals i _ (by rw [← ndVals_all]; exact ((ndOpt_iff out.opt).1 ho).2.2) hv
                simpa [ndVal] using this
              refine ndm_run _ _ _ rfl (setInfo_nd s _ hs) ?_
              intro p hp
              rcases List.mem_cons.1 hp with rfl | hp
              · exact hf1
              · exact hr p hp
            | _ => exact ndm_reject _ _ _
  | _ => exact ndm_rejectWith _ _ _ _

theorem step_s0_ndm (orc : Oracle) (m : PM) (f : Frame) (rest : List Frame) (tok : Tok)
    (hf : ndCfg f.cfg = true) (hr : ∀ p ∈ rest, ndCfg p.cfg = true) : NDM (step_s0 orc m f rest tok) := by
  unfold step_s0
  simp only [handleDeprecated_spec, depEffect_nd_none f hf]
  cases tok with
  | rbrace =>
    cases rest with
    | nil => exact ndm_rejectWith _ _ _ _
    | cons p rest' =>
      simp only []
      split
      · exact ndm_rejectWith _ _ _ _
      · simp only [runValid_spec]
        have hp2 : ndCfg ({ writeBack p f with cfg := (writeBack p f).cfg.afterSection f.cfg } : Frame).cfg = true :=
          setInfo_nd _ _ (writeBack_nd p f (hr p (by simp)) hf)
        cases validVerdict orc _ _ with
        | none => exact ndm_reject _ _ _
        | some cs => exact ndm_run _ _ rest' rfl hp2 (fun q hq => hr q (List.mem_cons_of_mem _ hq))
  | comment v => simp only []; split <;> exact ndm_run _ _ rest rfl hf hr
  | str v =>
    simp only []
    generalize getoptPath f.cfg v = gp
    cases gp.ref with
    | none =>
      simp only []
      repeat' split
      all_goals first
        | exact ndm_reject _ _ _
        | exact ndm_rejectWith _ _ _ _
        | exact ndm_run _ _ rest rfl hf hr
        | (refine ndm_run _ _ rest rfl (setOpts_nd _ _ ?_) hr
           rw [ndOpts_append]
           simp [(ndCfg_iff f.cfg).1 hf, ndOpts, ndOpt, ndDecls, ndVals])
    | some ref =>
      simp only []
      cases f.cfg.getOpt ref with
      | none => exact ndm_reject _ _ _
      | some o => exact ndm_run _ _ rest rfl hf hr
  | _ => exact ndm_rejectWith _ _ _ _

theorem addLine_nd (f : Frame) (nl : Nat) (h : ndCfg f.cfg = true) : ndCfg (f.addLine nl).cfg = true := setLine_nd _ _ h

/-- **Invariant.** -/
theorem pstep_ndm (orc : Oracle) (m : PM) (tok : Tok) (nl : Nat) (h : NDM m) : NDM (pstep orc m tok nl) := by
  by_cases hrun : m.status = .running
  · cases hfr : m.frames with
    | nil =>
      have : pstep orc m tok nl = m := by unfold pstep; simp [hfr]
      rw [this]; exact h
    | cons f rest =>
      have hf : ndCfg (f.addLine nl).cfg = true := addLine_nd f nl (h hrun f (by simp [hfr]))
      have hr : ∀ p ∈ rest, ndCfg p.cfg = true := fun p hp => h hrun p (by simp [hfr, hp])
      have disp : NDM (match f.state with
          | .s0 => step_s0 orc { m with frames := f.addLine nl :: rest } (f.addLine nl) rest tok
          | .s1 => step_s1 orc { m with frames := f.addLine nl :: rest } (f.addLine nl) rest tok
          | .s2 => step_s2 orc { m with frames := f.addLine nl :: rest } (f.addLine nl) rest tok
          | .s3 => step_s3 orc { m with frames := f.addLine nl :: rest } (f.addLine nl) rest tok
          | .s4 => step_s4 orc { m with frames := f.addLine nl :: rest } (f.addLine nl) rest tok
          | .s5 => step_s5 orc { m with frames := f.addLine nl :: rest } (f.addLine nl) rest tok
          | .s6 => step_s6 orc { m with frames := f.addLine nl :: rest } (f.addLine nl) rest tok
          | .s7 => step_s7 orc { m with frames := f.addLine nl :: rest } (f.addLine nl) rest tok
          | .s8 => step_s8 orc { m with frames := f.addLine nl :: rest } (f.addLine nl) rest tok
          | .s9 => step_s9 orc { m with frames := f.addLine nl :: rest } (f.addLine nl) rest tok
          | .s10 => step_s10 orc { m with frames := f.addLine nl :: rest } (f.addLine nl) rest tok
          | .s11 => step_s11 orc { m with frames := f.addLine nl :: rest } (f.addLine nl) rest tok
          | .s12 => step_s12 orc { m with frames := f.addLine nl :: rest } (f.addLine nl) rest tok
          | .s13 => step_s13 orc { m with frames := f.addLine nl :: rest } (f.addLine nl) rest tok
          | .s14 => step_s14 orc { m with frames := f.addLine nl :: rest } (f.addLine nl) rest tok) := by
        cases f.state with
        | s0 => exact step_s0_ndm orc _ _ rest tok hf hr
        | s1 => exact step_s1_ndm orc _ _ rest tok hf hr
        | s2 => exact step_s2_ndm orc _ _ rest tok hf hr
        | s3 => exact step_s3_ndm orc _ _ rest tok hf hr
        | s4 => exact step_s4_ndm orc _ _ rest tok hf hr
        | s5 => exact step_s5_ndm orc _ _ rest tok hf hr
        | s6 => exact step_s6_ndm orc _ _ rest tok hf hr
        | s7 => exact step_s7_ndm orc _ _ rest tok hf hr
        | s8 => exact step_s8_ndm orc _ _ rest tok hf hr
        | s9 => exact step_s9_ndm orc _ _ rest tok hf hr
        | s10 => exact step_s10_ndm orc _ _ rest tok hf hr
        | s11 => exact step_s11_ndm orc _ _ rest tok hf hr
        | s12 => exact step_s12_ndm orc _ _ rest tok rfl hf hr
        | s13 => exact step_s13_ndm orc _ _ rest tok rfl hf hr
        | s14 => exact step_s14_ndm orc _ _ rest tok hf hr
      cases tok with
      | err e => rw [pstep_err orc m f rest e nl hrun hfr]; exact ndm_rejectWith _ _ _ _
      | eof =>
        rw [pstep_eof orc m f rest nl hrun hfr]
        split
        · exact ndm_rejectWith _ _ _ _
        · exact ndm_stop _ (by simp)
      | comment v =>
        by_cases hs0 : f.state = .s0
        · rw [pstep_running orc m f rest _ nl hrun hfr rfl (Or.inr hs0)]; exact disp
        · rw [pstep_comment_skip orc m f rest v nl hrun hfr hs0]; exact ndm_run _ _ rest rfl hf hr
      | str v => rw [pstep_running orc m f rest _ nl hrun hfr rfl (Or.inl rfl)]; exact disp
      | lbrace => rw [pstep_running orc m f rest _ nl hrun hfr rfl (Or.inl rfl)]; exact disp
      | rbrace => rw [pstep_running orc m f rest _ nl hrun hfr rfl (Or.inl rfl)]; exact disp
      | lparen => rw [pstep_running orc m f rest _ nl hrun hfr rfl (Or.inl rfl)]; exact disp
      | rparen => rw [pstep_running orc m f rest _ nl hrun hfr rfl (Or.inl rfl)]; exact disp
      | eq => rw [pstep_running orc m f rest _ nl hrun hfr rfl (Or.inl rfl)]; exact disp
      | pluseq => rw [pstep_running orc m f rest _ nl hrun hfr rfl (Or.inl rfl)]; exact disp
      | comma => rw [pstep_running orc m f rest _ nl hrun hfr rfl (Or.inl rfl)]; exact disp
  · rw [pstep_stopped orc m tok nl hrun]; exact h

theorem parseToks_ndm (orc : Oracle) (ts : List LTok) : ∀ m, NDM m → NDM (parseToks orc m ts) := by
  induction ts with
  | nil => intro m h; exact h
  | cons t ts ih => intro m h; exact ih _ (pstep_ndm orc m t.1 t.2 h)

theorem nd_all (m : PM) : nd (fun _ => false) m = m.diags := by simp [nd]

/-- with no deprecated option anywhere, a step that does not reject delivers nothing -/
theorem pstep_silent (orc : Oracle) (m : PM) (tok : Tok) (nl : Nat) (h : NDM m)
    (hacc : (pstep orc m tok nl).status ≠ .rejected) : (pstep orc m tok nl).diags = m.diags := by
  by_cases hrun : m.status = .running
  · have := pstep_quiet (P := fun _ => false) orc m tok nl (by
      intro f hf c hc
      have hf' : f ∈ m.frames := by
        cases hfr : m.frames with
        | nil => simp [hfr] at hf
        | cons g rest => simp [hfr] at hf; subst hf; simp
      rw [depEffect_nd_none _ (addLine_nd f nl (h hrun f hf'))] at hc
      simp at hc) hacc
    rw [nd_all, nd_all] at this
    exact this
  · rw [pstep_stopped orc m tok nl hrun]

theorem parseToks_silent (orc : Oracle) (ts : List LTok) : ∀ (m : PM), NDM m → (parseToks orc m ts).status ≠ .rejected →
    (parseToks orc m ts).diags = m.diags := by
  induction ts with
  | nil => intro m _ _; rfl
  | cons t ts ih =>
    intro m h hacc
    rw [parseToks_cons] at hacc ⊢
    rw [ih _ (pstep_ndm orc m t.1 t.2 h) hacc]
    by_cases h1 : (pstep orc m t.1 t.2).status = .rejected
    · rw [parseToks_stopped orc _ ts (by rw [h1]; decide)] at hacc
      exact absurd h1 hacc
    · exact pstep_silent orc m t.1 t.2 h h1

theorem startPM_ndm (c : Cfg) (text : Bytes) (k0 : Nat) (h : ndCfg c = true) : NDM (startPM c text k0) := by
  intro _ f hf
  simp [startPM] at hf
  subst hf
  exact h

end Confuse
