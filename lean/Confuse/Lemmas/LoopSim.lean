import Confuse.Lemmas.Srcs
import Confuse.Props.C13S
/-!
# The parse loop, one iteration at a time; what it preserves
-/
namespace Confuse

def popFrame (f : Frame) (src : Src) : Frame :=
  { f with cfg := f.cfg.setInfo { f.cfg.info with filename := src.savedFile, line := src.savedLine } }

/-- one iteration of `parseLoopFrom` in start condition INITIAL; `none`: the loop returns `m` -/
def loopNext (orc : Oracle) (pe : PEnv) (m : PM) : Option PM :=
  match m.srcs with
  | [] => none
  | src :: srcs =>
    if (lexInitial pe.env 0 src.rest).tok == .eof && !srcs.isEmpty then
      (match m.frames with
       | f :: rest => some { m with frames := popFrame f src :: rest, srcs := srcs }
       | [] => none)
    else
      some (afterTok pe (pstep orc (setSrcs m ({ src with rest := (lexInitial pe.env 0 src.rest).rest } :: srcs))
        (lexInitial pe.env 0 src.rest).tok (lexInitial pe.env 0 src.rest).nl))

theorem loop_unfold (orc : Oracle) (pe : PEnv) (fuel : Nat) (m : PM) :
    parseLoopFrom orc pe (fuel + 1) .initial m =
      if m.status != .running then m else
      match loopNext orc pe m with
      | none => m
      | some m' => parseLoopFrom orc pe fuel .initial m' := by
  rw [parseLoopFrom]
  unfold loopNext
  by_cases hr : (m.status != .running) = true
  · simp only [hr, if_true]
  · simp only [hr, if_false]
    cases hs : m.srcs with
    | nil => rfl
    | cons src srcs =>
      simp only [lexFrom]
      by_cases he : ((lexInitial pe.env 0 src.rest).tok == Tok.eof && !srcs.isEmpty) = true
      · simp only [he, if_true]
        cases m.frames with
        | nil => rfl
        | cons f rest => rfl
      · simp only [he, if_false, afterTok, setSrcs, Bool.false_eq_true]
        rfl

theorem loop_zero (orc : Oracle) (pe : PEnv) (m : PM) :
    parseLoopFrom orc pe 0 .initial m = if m.status == .running then { m with status := .outOfFuel } else m := by
  rw [parseLoopFrom]

theorem loop_stopped (orc : Oracle) (pe : PEnv) (fuel : Nat) (m : PM) (h : m.status ≠ .running) :
    parseLoopFrom orc pe fuel .initial m = m := by
  cases fuel with
  | zero => rw [loop_zero]; simp [h]
  | succ n => rw [loop_unfold]; simp [h]

/-- fuel that was enough stays enough -/
theorem loop_mono (orc : Oracle) (pe : PEnv) : ∀ (fuel : Nat) (m : PM),
    (parseLoopFrom orc pe fuel .initial m).status ≠ .outOfFuel →
    parseLoopFrom orc pe (fuel + 1) .initial m = parseLoopFrom orc pe fuel .initial m := by
  intro fuel
  induction fuel with
  | zero =>
    intro m h
    rw [loop_zero] at h ⊢
    by_cases hr : m.status = .running
    · simp [hr] at h
    · have : (m.status == Status.running) = false := by simpa using hr
      rw [loop_unfold]; simp [hr, this]
  | succ n ih =>
    intro m h
    rw [loop_unfold orc pe (n + 1), loop_unfold orc pe n] at *
    split
    · rfl
    · rename_i hr
      simp only [hr, if_false] at h
      cases hn : loopNext orc pe m with
      | none => rfl
      | some m' =>
        simp only [hn] at h ⊢
        exact ih m' h

/-! ### what is compared: everything but the source stack, up to positions -/

def Core (M M' : PM) : Prop := erasePM (setSrcs M []) = erasePM (setSrcs M' [])

def rests (m : PM) : List Bytes := m.srcs.map (·.rest)

theorem Core.status {M M' : PM} (h : Core M M') : M.status = M'.status := by
  have := erasePM_eq_status (m := setSrcs M []) (m' := setSrcs M' []) h; exact this
theorem Core.pending {M M' : PM} (h : Core M M') : M.pendingInclude = M'.pendingInclude := by
  have := ((erasePM_eq_iff _ _).1 h).2.2.2.2.2.1; exact this
theorem Core.frames {M M' : PM} (h : Core M M') : M.frames.map eraseFrame = M'.frames.map eraseFrame := by
  have := ((erasePM_eq_iff _ _).1 h).1; exact this
theorem Core.refl (M : PM) : Core M M := rfl
theorem Core.setSrcs {M M' : PM} (h : Core M M') (S S' : List Src) : Core (setSrcs M S) (setSrcs M' S') := h

theorem core_iff (M M' : PM) : Core M M' ↔
    (M.frames.map eraseFrame = M'.frames.map eraseFrame ∧ M.status = M'.status ∧
      M.diags.map eraseDiag = M'.diags.map eraseDiag ∧ M.trace = M'.trace ∧ M.pendingInclude = M'.pendingInclude ∧ M.maxDepth = M'.maxDepth) := by
  unfold Core
  rw [erasePM_eq_iff]
  simp [setSrcs]

theorem core_pstep (orc : Oracle) {M M' : PM} (h : Core M M') (tok : Tok) (nl nl' : Nat) :
    Core (pstep orc M tok nl) (pstep orc M' tok nl') := by
  unfold Core
  rw [← pstep_srcs, ← pstep_srcs]
  exact pstep_erase_congr orc _ _ tok nl nl' h

theorem rests_pstep (orc : Oracle) (m : PM) (tok : Tok) (nl : Nat) : rests (pstep orc m tok nl) = rests m := by
  unfold rests; rw [pstep_srcs_eq]

theorem core_outOfFuel {M M' : PM} (h : Core M M') : Core { M with status := .outOfFuel } { M' with status := .outOfFuel } := by
  rw [core_iff] at h ⊢
  obtain ⟨h1, h2, h3, h4, h5, h6⟩ := h
  exact ⟨h1, rfl, h3, h4, h5, h6⟩

def DepthHit (F : PM) : Prop := F.status = .rejected ∧ ∃ d ∈ F.diags, d.cls = .includeDepth

theorem core_clearPending {M M' : PM} (h : Core M M') : Core { M with pendingInclude := none } { M' with pendingInclude := none } := by
  rw [core_iff] at h ⊢
  obtain ⟨h1, h2, h3, h4, h5, h6⟩ := h
  exact ⟨h1, h2, h3, h4, rfl, h6⟩

theorem core_rejectWith {M M' : PM} (h : Core M M') (f f' : Frame) (rest rest' : List Frame) (c : DiagCls)
    (hf : eraseFrame f = eraseFrame f') (hr : rest.map eraseFrame = rest'.map eraseFrame) :
    Core (M.rejectWith f rest c) (M'.rejectWith f' rest' c) := by
  unfold Core at h ⊢
  rw [← setSrcs_rejectWith, ← setSrcs_rejectWith, rejectWith_erase, rejectWith_erase, h, hf, hr]

theorem eraseFrame_setPos (f : Frame) (l : Nat) (fn : Option Bytes) :
    eraseFrame { f with cfg := f.cfg.setInfo { f.cfg.info with filename := fn, line := l } } = eraseFrame f := by
  simp only [eraseFrame_setCfg]
  have : eraseCfg (f.cfg.setInfo { f.cfg.info with filename := fn, line := l }) = eraseCfg f.cfg := by
    cases f.cfg; rfl
  rw [this]
  rfl

theorem core_setFrames {M M' : PM} (h : Core M M') (fs fs' : List Frame) (hf : fs.map eraseFrame = fs'.map eraseFrame)
    (S S' : List Src) : Core { M with frames := fs, srcs := S } { M' with frames := fs', srcs := S' } := by
  rw [core_iff] at h ⊢
  obtain ⟨h1, h2, h3, h4, h5, h6⟩ := h
  exact ⟨hf, h2, h3, h4, h5, h6⟩

theorem doInclude_core (pe : PEnv) {M M' : PM} (h : Core M M') (fn : Bytes)
    (hd : M.srcs.length - 1 ≥ pe.maxInc ↔ M'.srcs.length - 1 ≥ pe.maxInc) :
    Core (doInclude pe M fn) (doInclude pe M' fn) ∧
      ((rests (doInclude pe M fn) = rests M ∧ rests (doInclude pe M' fn) = rests M') ∨
        ∃ c, rests (doInclude pe M fn) = c :: rests M ∧ rests (doInclude pe M' fn) = c :: rests M') := by
  have hfr := h.frames
  have hc := core_clearPending h
  unfold doInclude
  cases hF : M.frames with
  | nil =>
    rw [hF] at hfr
    have hF' : M'.frames = [] := by cases hx : M'.frames <;> simp_all
    simp only [hF, hF']
    refine ⟨?_, Or.inl ⟨rfl, rfl⟩⟩
    rw [core_iff] at hc ⊢
    simpa [hF, hF'] using hc
  | cons f rest =>
    rw [hF] at hfr
    cases hF' : M'.frames with
    | nil => simp [hF'] at hfr
    | cons f' rest' =>
      rw [hF'] at hfr
      simp only [List.map_cons, List.cons.injEq] at hfr
      simp only [hF, hF']
      by_cases hdep : M.srcs.length - 1 ≥ pe.maxInc
      · have hdep' := hd.1 hdep
        simp only [hdep, hdep', if_true]
        exact ⟨core_rejectWith hc _ _ _ _ _ hfr.1 hfr.2, Or.inl ⟨by simp [rests, PM.rejectWith, PM.reject, collapse, PM.addDiags], by simp [rests, PM.rejectWith, PM.reject, collapse, PM.addDiags]⟩⟩
      · have hdep' : ¬ (M'.srcs.length - 1 ≥ pe.maxInc) := fun x => hdep (hd.2 x)
        simp only [hdep, hdep', if_false]
        cases resolveFile pe fn with
        | none =>
          exact ⟨core_rejectWith hc _ _ _ _ _ hfr.1 hfr.2, Or.inl ⟨by simp [rests, PM.rejectWith, PM.reject, collapse, PM.addDiags], by simp [rests, PM.rejectWith, PM.reject, collapse, PM.addDiags]⟩⟩
        | some xf =>
          simp only []
          cases openFile pe xf with
          | none =>
            exact ⟨core_rejectWith hc _ _ _ _ _ hfr.1 hfr.2, Or.inl ⟨by simp [rests, PM.rejectWith, PM.reject, collapse, PM.addDiags], by simp [rests, PM.rejectWith, PM.reject, collapse, PM.addDiags]⟩⟩
          | some content =>
            simp only []
            refine ⟨core_setFrames hc _ _ ?_ _ _, Or.inr ⟨content, rfl, rfl⟩⟩
            simp only [List.map_cons, eraseFrame_setPos, hfr.1, hfr.2]

theorem doInclude_depthHit (pe : PEnv) (M : PM) (fn : Bytes) (f : Frame) (rest : List Frame) (hF : M.frames = f :: rest)
    (hdep : M.srcs.length - 1 ≥ pe.maxInc) : DepthHit (doInclude pe M fn) := by
  unfold doInclude
  simp only [hF, hdep, if_true]
  exact ⟨by simp [PM.rejectWith], ⟨_, by simp [PM.rejectWith, PM.reject, collapse, PM.addDiags]; exact Or.inl rfl, rfl⟩⟩

/-! ### one iteration, two machines -/

theorem rests_cons {M : PM} {x : Bytes} {xs : List Bytes} (h : rests M = x :: xs) :
    ∃ src srcs, M.srcs = src :: srcs ∧ src.rest = x ∧ srcs.map (·.rest) = xs := by
  unfold rests at h
  cases hs : M.srcs with
  | nil => simp [hs] at h
  | cons src srcs => simp only [hs, List.map_cons, List.cons.injEq] at h; exact ⟨src, srcs, rfl, h.1, h.2⟩

theorem live_doInclude (pe : PEnv) (M : PM) (fn : Bytes) (h : Live M) (hrun : M.status = .running) : Live (doInclude pe M fn) := by
  obtain ⟨f, inner, hF⟩ := h hrun
  unfold doInclude
  simp only [hF]
  intro hst
  repeat' split
  all_goals first
    | (simp [PM.rejectWith] at hst; done)
    | exact ⟨_, _, rfl⟩

theorem live_afterTok (pe : PEnv) (P : PM) (h : Live P) : Live (afterTok pe P) := by
  unfold afterTok
  cases P.pendingInclude with
  | none => exact h
  | some fn =>
    simp only []
    split
    · rename_i hr; exact live_doInclude pe P fn h (by simpa using hr)
    · exact h

theorem live_setSrcs {M : PM} (h : Live M) (S : List Src) : Live (setSrcs M S) := h

/-- the token branch of an iteration, run on two machines that agree up to positions -/
theorem tokStep (orc : Oracle) (pe : PEnv) {M M' : PM} (hc : Core M M') (hl : Live M) (S S' : List Src) (tok : Tok) (nl nl' : Nat)
    (hlen : S'.length ≤ S.length) :
    DepthHit (afterTok pe (pstep orc (setSrcs M S) tok nl)) ∨
      (Core (afterTok pe (pstep orc (setSrcs M S) tok nl)) (afterTok pe (pstep orc (setSrcs M' S') tok nl')) ∧
       Live (afterTok pe (pstep orc (setSrcs M S) tok nl)) ∧
       ((rests (afterTok pe (pstep orc (setSrcs M S) tok nl)) = S.map (·.rest) ∧
           rests (afterTok pe (pstep orc (setSrcs M' S') tok nl')) = S'.map (·.rest)) ∨
         ∃ c, rests (afterTok pe (pstep orc (setSrcs M S) tok nl)) = c :: S.map (·.rest) ∧
           rests (afterTok pe (pstep orc (setSrcs M' S') tok nl')) = c :: S'.map (·.rest))) := by
  have hP : Core (pstep orc (setSrcs M S) tok nl) (pstep orc (setSrcs M' S') tok nl') := core_pstep orc (hc.setSrcs S S') tok nl nl'
  have hLP : Live (pstep orc (setSrcs M S) tok nl) := pstep_live orc _ tok nl (live_setSrcs hl S)
  have hr1 : rests (pstep orc (setSrcs M S) tok nl) = S.map (·.rest) := by rw [rests_pstep]; rfl
  have hr2 : rests (pstep orc (setSrcs M' S') tok nl') = S'.map (·.rest) := by rw [rests_pstep]; rfl
  have hs1 : (pstep orc (setSrcs M S) tok nl).srcs = S := by rw [pstep_srcs_eq]; rfl
  have hs2 : (pstep orc (setSrcs M' S') tok nl').srcs = S' := by rw [pstep_srcs_eq]; rfl
  generalize pstep orc (setSrcs M S) tok nl = P at hP hLP hr1 hs1 ⊢
  generalize pstep orc (setSrcs M' S') tok nl' = P' at hP hr2 hs2 ⊢
  have hpend := hP.pending
  have hst := hP.status
  unfold afterTok
  cases hp : P.pendingInclude with
  | none =>
    rw [hp] at hpend
    simp only [← hpend]
    exact Or.inr ⟨hP, hLP, Or.inl ⟨hr1, hr2⟩⟩
  | some fn =>
    rw [hp] at hpend
    simp only [← hpend]
    by_cases hrun : P.status = .running
    · have hrun' : P'.status = .running := hst ▸ hrun
      simp only [hrun, hrun', beq_self_eq_true, if_true]
      by_cases hdep : P.srcs.length - 1 ≥ pe.maxInc
      · obtain ⟨f, inner, hF⟩ := hLP hrun
        exact Or.inl (doInclude_depthHit pe P fn f inner hF hdep)
      · have hdep' : ¬ (P'.srcs.length - 1 ≥ pe.maxInc) := by rw [hs1] at hdep; rw [hs2]; omega
        have := doInclude_core pe hP fn ⟨fun x => absurd x hdep, fun x => absurd x hdep'⟩
        refine Or.inr ⟨this.1, live_doInclude pe P fn hLP hrun, ?_⟩
        rcases this.2 with ⟨e1, e2⟩ | ⟨c, e1, e2⟩
        · exact Or.inl ⟨e1.trans hr1, e2.trans hr2⟩
        · exact Or.inr ⟨c, by rw [e1, hr1], by rw [e2, hr2]⟩
    · have hrun' : ¬ P'.status = .running := fun x => hrun (hst ▸ x)
      have b1 : (P.status == Status.running) = false := by simpa using hrun
      have b2 : (P'.status == Status.running) = false := by simpa using hrun'
      simp only [b1, b2, Bool.false_eq_true, if_false]
      exact Or.inr ⟨hP, hLP, Or.inl ⟨hr1, hr2⟩⟩

/-- the pop branch, on two machines that agree up to positions -/
theorem popStep {M M' : PM} (hc : Core M M') (hl : Live M) (hrun : M.status = .running) (src src' : Src) (S S' : List Src) :
    ∃ f rest f' rest', M.frames = f :: rest ∧ M'.frames = f' :: rest' ∧
      Core { M with frames := popFrame f src :: rest, srcs := S } { M' with frames := popFrame f' src' :: rest', srcs := S' } ∧
      Live ({ M with frames := popFrame f src :: rest, srcs := S } : PM) := by
  obtain ⟨f, rest, hF⟩ := hl hrun
  have hfr := hc.frames
  rw [hF] at hfr
  cases hF' : M'.frames with
  | nil => simp [hF'] at hfr
  | cons f' rest' =>
    rw [hF'] at hfr
    simp only [List.map_cons, List.cons.injEq] at hfr
    refine ⟨f, rest, f', rest', hF, rfl, core_setFrames hc _ _ ?_ _ _, fun _ => ⟨_, _, rfl⟩⟩
    simp only [List.map_cons, popFrame, eraseFrame_setPos, hfr.1, hfr.2]

theorem loopNext_pop (orc : Oracle) (pe : PEnv) (M : PM) (src : Src) (srcs : List Src) (f : Frame) (rest : List Frame)
    (h : M.srcs = src :: srcs) (he : (lexInitial pe.env 0 src.rest).tok = .eof) (hne : srcs ≠ []) (hF : M.frames = f :: rest) :
    loopNext orc pe M = some { M with frames := popFrame f src :: rest, srcs := srcs } := by
  unfold loopNext
  have : srcs.isEmpty = false := by cases srcs <;> simp_all
  simp [h, he, this, hF]

theorem loopNext_tok (orc : Oracle) (pe : PEnv) (M : PM) (src : Src) (srcs : List Src)
    (h : M.srcs = src :: srcs) (hc : ¬ ((lexInitial pe.env 0 src.rest).tok = .eof ∧ srcs ≠ [])) :
    loopNext orc pe M = some (afterTok pe (pstep orc (setSrcs M ({ src with rest := (lexInitial pe.env 0 src.rest).rest } :: srcs))
        (lexInitial pe.env 0 src.rest).tok (lexInitial pe.env 0 src.rest).nl)) := by
  unfold loopNext
  have : ((lexInitial pe.env 0 src.rest).tok == Tok.eof && !srcs.isEmpty) = false := by
    by_cases h1 : (lexInitial pe.env 0 src.rest).tok = .eof
    · have : srcs = [] := by
        cases srcs with
        | nil => rfl
        | cons a b => exact absurd ⟨h1, by simp⟩ hc
      simp [this]
    · simp [h1]
  simp [h, this]

def Skippable (env : Env) (ws : Bytes) : Prop := NoDollar ws ∧ EndsNl ws ∧ (lexInitial env 0 ws).tok = .eof

theorem skippable_nil (env : Env) : Skippable env [] :=
  ⟨fun _ h => by simp at h, fun _ h => by simp at h, by simp [lexInitial]⟩

theorem skip_lex (env : Env) (ws o : Bytes) (h : Skippable env ws) :
    (lexInitial env 0 (ws ++ o)).tok = (lexInitial env 0 o).tok ∧ (lexInitial env 0 (ws ++ o)).rest = (lexInitial env 0 o).rest := by
  have h1 := (lexInitial_app env o ws 0 h.1 h.2.1).1 h.2.2
  have h2 := lexInitial_tok_rest env o (lexInitial env 0 ws).nl
  rw [h1]; exact h2

def SameR (env : Env) (M M' : PM) : Prop :=
  Core M M' ∧ Live M ∧ ∃ tr ws o mr, rests M = tr ++ o :: mr ∧ rests M' = tr ++ (ws ++ o) :: mr ∧ Skippable env ws

def JointR (env : Env) (M M' : PM) : Prop :=
  Core M M' ∧ Live M ∧ ∃ tr a o mr, rests M = tr ++ a :: o :: mr ∧ rests M' = tr ++ (a ++ o) :: mr ∧
    NoDollar a ∧ EndsNl a ∧ ∃ ta, Scan env a (ta ++ [.eof])

theorem map_rest_ne_nil {S : List Src} {x : Bytes} {xs : List Bytes} (h : S.map (·.rest) = x :: xs) : S ≠ [] := by
  cases S <;> simp_all

theorem sameStep (orc : Oracle) (pe : PEnv) {M M' : PM} (h : SameR pe.env M M') (hrun : M.status = .running) :
    ∃ N N', loopNext orc pe M = some N ∧ loopNext orc pe M' = some N' ∧ (DepthHit N ∨ SameR pe.env N N') := by
  obtain ⟨hc, hl, tr, ws, o, mr, h1, h2, hsk⟩ := h
  have hrun' : M'.status = .running := hc.status ▸ hrun
  cases tr with
  | nil =>
    simp only [List.nil_append] at h1 h2
    obtain ⟨src, srcs, hs, hsr, hsm⟩ := rests_cons h1
    obtain ⟨src', srcs', hs', hsr', hsm'⟩ := rests_cons h2
    have hlx := skip_lex pe.env ws o hsk
    rw [← hsr'] at hlx
    rw [← hsr] at hlx
    by_cases hpop : (lexInitial pe.env 0 src.rest).tok = .eof ∧ srcs ≠ []
    · have hpop' : (lexInitial pe.env 0 src'.rest).tok = .eof ∧ srcs' ≠ [] := by
        refine ⟨hlx.1.trans hpop.1, ?_⟩
        intro e; subst e; simp at hsm'; subst hsm'; exact hpop.2 (by simpa using hsm)
      obtain ⟨f, rest, f', rest', hF, hF', hcN, hlN⟩ := popStep hc hl hrun src src' srcs srcs'
      refine ⟨_, _, loopNext_pop orc pe M src srcs f rest hs hpop.1 hpop.2 hF,
        loopNext_pop orc pe M' src' srcs' f' rest' hs' hpop'.1 hpop'.2 hF', Or.inr ⟨hcN, hlN, ?_⟩⟩
      cases mr with
      | nil => exact absurd (by simpa using hsm) hpop.2
      | cons o2 mr2 => exact ⟨[], [], o2, mr2, by simp [rests, hsm], by simp [rests, hsm'], skippable_nil _⟩
    · have hpop' : ¬ ((lexInitial pe.env 0 src'.rest).tok = .eof ∧ srcs' ≠ []) := by
        intro ⟨e1, e2⟩
        refine hpop ⟨hlx.1.symm.trans e1, ?_⟩
        intro e; subst e; simp at hsm; subst hsm; exact e2 (by simpa using hsm')
      refine ⟨_, _, loopNext_tok orc pe M src srcs hs hpop, loopNext_tok orc pe M' src' srcs' hs' hpop', ?_⟩
      rw [hlx.1]
      rcases tokStep orc pe hc hl ({ src with rest := (lexInitial pe.env 0 src.rest).rest } :: srcs)
          ({ src' with rest := (lexInitial pe.env 0 src'.rest).rest } :: srcs') (lexInitial pe.env 0 src.rest).tok
          (lexInitial pe.env 0 src.rest).nl (lexInitial pe.env 0 src'.rest).nl
          (by simp only [List.length_cons]; have := congrArg List.length (hsm.trans hsm'.symm); simp only [List.length_map] at this; omega) with hd | ⟨hcN, hlN, hr⟩
      · exact Or.inl hd
      · refine Or.inr ⟨hcN, hlN, ?_⟩
        rcases hr with ⟨e1, e2⟩ | ⟨c, e1, e2⟩
        · exact ⟨[], [], (lexInitial pe.env 0 src.rest).rest, mr, by simp [e1, hsm], by rw [e2]; simp [hsm', hlx.2], skippable_nil _⟩
        · exact ⟨[c], [], (lexInitial pe.env 0 src.rest).rest, mr, by simp [e1, hsm], by rw [e2]; simp [hsm', hlx.2], skippable_nil _⟩
  | cons t ts =>
    simp only [List.cons_append] at h1 h2
    obtain ⟨src, srcs, hs, hsr, hsm⟩ := rests_cons h1
    obtain ⟨src', srcs', hs', hsr', hsm'⟩ := rests_cons h2
    have hne : srcs ≠ [] := by intro e; subst e; simp at hsm
    have hne' : srcs' ≠ [] := by intro e; subst e; simp at hsm'
    have hrr : src'.rest = src.rest := hsr'.trans hsr.symm
    by_cases he : (lexInitial pe.env 0 src.rest).tok = .eof
    · obtain ⟨f, rest, f', rest', hF, hF', hcN, hlN⟩ := popStep hc hl hrun src src' srcs srcs'
      refine ⟨_, _, loopNext_pop orc pe M src srcs f rest hs he hne hF,
        loopNext_pop orc pe M' src' srcs' f' rest' hs' (by rw [hrr]; exact he) hne' hF', Or.inr ⟨hcN, hlN, ?_⟩⟩
      exact ⟨ts, ws, o, mr, by simp [rests, hsm], by simp [rests, hsm'], hsk⟩
    · refine ⟨_, _, loopNext_tok orc pe M src srcs hs (fun x => he x.1), loopNext_tok orc pe M' src' srcs' hs' (fun x => he (hrr ▸ x.1)), ?_⟩
      rw [hrr]
      rcases tokStep orc pe hc hl ({ src with rest := (lexInitial pe.env 0 src.rest).rest } :: srcs)
          ({ src' with rest := (lexInitial pe.env 0 src.rest).rest } :: srcs') (lexInitial pe.env 0 src.rest).tok
          (lexInitial pe.env 0 src.rest).nl (lexInitial pe.env 0 src.rest).nl
          (by simp; have := congrArg List.length hsm; have := congrArg List.length hsm'; simp at *; omega) with hd | ⟨hcN, hlN, hr⟩
      · exact Or.inl hd
      · refine Or.inr ⟨hcN, hlN, ?_⟩
        rcases hr with ⟨e1, e2⟩ | ⟨c, e1, e2⟩
        · exact ⟨(lexInitial pe.env 0 src.rest).rest :: ts, ws, o, mr, by simp [e1, hsm], by simp [e2, hsm'], hsk⟩
        · exact ⟨c :: (lexInitial pe.env 0 src.rest).rest :: ts, ws, o, mr, by simp [e1, hsm], by simp [e2, hsm'], hsk⟩

theorem scan_inv (env : Env) (a : Bytes) (ta : List Tok) (h : Scan env a (ta ++ [.eof])) :
    ((lexInitial env 0 a).tok = .eof ∧ ta = []) ∨
    ((lexInitial env 0 a).tok ≠ .eof ∧ (lexInitial env 0 a).tok.isErr = false ∧
      ∃ ta', Scan env (lexInitial env 0 a).rest (ta' ++ [.eof])) := by
  generalize hx : ta ++ [Tok.eof] = x at h
  cases h with
  | eof _ he =>
    left
    refine ⟨he, ?_⟩
    cases ta with
    | nil => rfl
    | cons t ts => simp at hx
  | err _ e he =>
    cases ta with
    | nil => simp at hx
    | cons t ts => simp at hx
  | tok _ ts hne herr hs =>
    right
    refine ⟨hne, herr, ?_⟩
    cases ta with
    | nil => simp only [List.nil_append, List.cons.injEq] at hx; exact absurd hx.1.symm hne
    | cons t ta' =>
      simp only [List.cons_append, List.cons.injEq] at hx
      exact ⟨ta', hx.2 ▸ hs⟩

theorem jointStep (orc : Oracle) (pe : PEnv) {M M' : PM} (h : JointR pe.env M M') (hrun : M.status = .running) :
    ∃ N, loopNext orc pe M = some N ∧
      (DepthHit N ∨ (∃ N', loopNext orc pe M' = some N' ∧ JointR pe.env N N') ∨ SameR pe.env N M') := by
  obtain ⟨hc, hl, tr, a, o, mr, h1, h2, hnd, hen, ta, hscan⟩ := h
  cases tr with
  | nil =>
    simp only [List.nil_append] at h1 h2
    obtain ⟨src, srcs, hs, hsr, hsm⟩ := rests_cons h1
    obtain ⟨src', srcs', hs', hsr', hsm'⟩ := rests_cons h2
    have hne : srcs ≠ [] := map_rest_ne_nil hsm
    subst hsr
    rcases scan_inv pe.env src.rest ta hscan with ⟨he, _⟩ | ⟨hne', herr, ta', hs2⟩
    · -- the included text is exhausted: the split machine pops it
      obtain ⟨f, rest, hF⟩ := hl hrun
      refine ⟨_, loopNext_pop orc pe M src srcs f rest hs he hne hF, Or.inr (Or.inr ⟨?_, fun _ => ⟨_, _, rfl⟩, ?_⟩)⟩
      · have := core_setFrames hc (popFrame f src :: rest) M'.frames
          (by rw [← hc.frames, hF]; simp only [List.map_cons, popFrame, eraseFrame_setPos]) srcs M'.srcs
        exact this
      · exact ⟨[], src.rest, o, mr, by simp [rests, hsm], by simpa using h2, hnd, hen, he⟩
    · have happ := (lexInitial_app pe.env o src.rest 0 hnd hen).2 hne' herr
      have e1 : (lexInitial pe.env 0 src'.rest).tok = (lexInitial pe.env 0 src.rest).tok := by rw [hsr', happ.1]; rfl
      have e2 : (lexInitial pe.env 0 src'.rest).rest = (lexInitial pe.env 0 src.rest).rest ++ o := by rw [hsr', happ.1]; rfl
      refine ⟨_, loopNext_tok orc pe M src srcs hs (fun x => hne' x.1), ?_⟩
      rcases tokStep orc pe hc hl ({ src with rest := (lexInitial pe.env 0 src.rest).rest } :: srcs)
          ({ src' with rest := (lexInitial pe.env 0 src'.rest).rest } :: srcs') (lexInitial pe.env 0 src.rest).tok
          (lexInitial pe.env 0 src.rest).nl (lexInitial pe.env 0 src'.rest).nl
          (by simp only [List.length_cons]; have := congrArg List.length hsm; have := congrArg List.length hsm'; simp only [List.length_map, List.length_cons] at *; omega) with hd | ⟨hcN, hlN, hr⟩
      · exact Or.inl hd
      · refine Or.inr (Or.inl ⟨_, ?_, hcN, hlN, ?_⟩)
        · rw [loopNext_tok orc pe M' src' srcs' hs' (fun x => hne' (e1 ▸ x.1)), e1]
        · have hsuf := happ.2
          rcases hr with ⟨r1, r2⟩ | ⟨c, r1, r2⟩
          · exact ⟨[], (lexInitial pe.env 0 src.rest).rest, o, mr, by rw [r1]; simp [hsm], by rw [r2]; simp [hsm', e2],
              hnd.suffix hsuf, hen.suffix hsuf, ta', hs2⟩
          · exact ⟨[c], (lexInitial pe.env 0 src.rest).rest, o, mr, by rw [r1]; simp [hsm], by rw [r2]; simp [hsm', e2],
              hnd.suffix hsuf, hen.suffix hsuf, ta', hs2⟩
  | cons t ts =>
    simp only [List.cons_append] at h1 h2
    obtain ⟨src, srcs, hs, hsr, hsm⟩ := rests_cons h1
    obtain ⟨src', srcs', hs', hsr', hsm'⟩ := rests_cons h2
    have hne : srcs ≠ [] := by intro e; subst e; simp at hsm
    have hne' : srcs' ≠ [] := by intro e; subst e; simp at hsm'
    have hrr : src'.rest = src.rest := hsr'.trans hsr.symm
    by_cases he : (lexInitial pe.env 0 src.rest).tok = .eof
    · obtain ⟨f, rest, f', rest', hF, hF', hcN, hlN⟩ := popStep hc hl hrun src src' srcs srcs'
      refine ⟨_, loopNext_pop orc pe M src srcs f rest hs he hne hF, Or.inr (Or.inl ⟨_,
        loopNext_pop orc pe M' src' srcs' f' rest' hs' (by rw [hrr]; exact he) hne' hF', hcN, hlN, ?_⟩)⟩
      exact ⟨ts, a, o, mr, by simp [rests, hsm], by simp [rests, hsm'], hnd, hen, ta, hscan⟩
    · refine ⟨_, loopNext_tok orc pe M src srcs hs (fun x => he x.1), ?_⟩
      rcases tokStep orc pe hc hl ({ src with rest := (lexInitial pe.env 0 src.rest).rest } :: srcs)
          ({ src' with rest := (lexInitial pe.env 0 src.rest).rest } :: srcs') (lexInitial pe.env 0 src.rest).tok
          (lexInitial pe.env 0 src.rest).nl (lexInitial pe.env 0 src.rest).nl
          (by simp only [List.length_cons]; have := congrArg List.length hsm; have := congrArg List.length hsm'; simp only [List.length_map, List.length_cons, List.length_append] at *; omega) with hd | ⟨hcN, hlN, hr⟩
      · exact Or.inl hd
      · refine Or.inr (Or.inl ⟨_, ?_, hcN, hlN, ?_⟩)
        · rw [loopNext_tok orc pe M' src' srcs' hs' (fun x => he (hrr ▸ x.1)), hrr]
        · rcases hr with ⟨r1, r2⟩ | ⟨c, r1, r2⟩
          · exact ⟨(lexInitial pe.env 0 src.rest).rest :: ts, a, o, mr, by rw [r1]; simp [hsm], by rw [r2]; simp [hsm'], hnd, hen, ta, hscan⟩
          · exact ⟨c :: (lexInitial pe.env 0 src.rest).rest :: ts, a, o, mr, by rw [r1]; simp [hsm], by rw [r2]; simp [hsm'], hnd, hen, ta, hscan⟩

end Confuse
