import Confuse.Spec.Literal
/-!
# Helper lemmas about the scanner model (item-level behaviour of `dqRun`, `sqRun`)
-/
namespace Confuse
open Confuse.Spec

theorem dqRun_inl (env : Env) (s s' : DqSt) (c : Nat) (cs : Bytes) (h : dqStep env s c cs = .inl s') :
    dqRun env s (c :: cs) = dqRun env s' cs := by
  simp only [dqRun, h]

theorem dqRun_inr (env : Env) (s : DqSt) (out : LexOut) (c : Nat) (cs : Bytes) (h : dqStep env s c cs = .inr out) :
    dqRun env s (c :: cs) = out := by
  simp only [dqRun, h]

/-! ### env splitting -/

theorem envSplit_noColon (pre name : Bytes) (h : name.all (fun c => c != c_rbr && c != c_colon) = true) :
    envSplit pre name = (pre.reverse ++ name, none) := by
  induction name generalizing pre with
  | nil => simp [envSplit]
  | cons c cs ih =>
    simp only [List.all_cons, Bool.and_eq_true] at h
    have hc : c ≠ c_colon := by
      intro e; subst e; simp at h
    simp only [envSplit, hc, if_false]
    rw [ih (c :: pre) h.2]
    simp

theorem envSplit_default (pre name d : Bytes) (h : name.all (fun c => c != c_rbr && c != c_colon) = true) :
    envSplit pre (name ++ c_colon :: c_minus :: d) = (pre.reverse ++ name, some d) := by
  induction name generalizing pre with
  | nil => simp [envSplit]
  | cons c cs ih =>
    simp only [List.all_cons, Bool.and_eq_true] at h
    have hc : c ≠ c_colon := by
      intro e; subst e; simp at h
    simp only [List.cons_append, envSplit, hc, if_false]
    rw [ih (c :: pre) h.2]
    simp

theorem envLookup_name (env : Env) (name : Bytes) (h : name.all (fun c => c != c_rbr && c != c_colon) = true) :
    envLookup env name = (match env name with | some v => v | none => []) := by
  simp [envLookup, envSplit_noColon [] name h]
  cases env name <;> simp

theorem envLookup_default (env : Env) (name d : Bytes) (h : name.all (fun c => c != c_rbr && c != c_colon) = true) :
    envLookup env (name ++ c_colon :: c_minus :: d) = (match env name with | some v => v | none => d) := by
  simp [envLookup, envSplit_default [] name d h]
  cases env name <;> simp

/-! ### the `${...}` body -/

@[simp] theorem nlCount_nil : nlCount [] = 0 := rfl
@[simp] theorem nlCount_append (a b : Bytes) : nlCount (a ++ b) = nlCount a + nlCount b := by simp [nlCount]
theorem nlCount_cons (c : Nat) (b : Bytes) : nlCount (c :: b) = (if c = c_nl then 1 else 0) + nlCount b := by
  by_cases h : c = c_nl <;> simp [nlCount, h]; omega

theorem dqRun_envBody (env : Env) (body inside acc : Bytes) (nl : Nat) (tail : Bytes)
    (h : body.all (· != c_rbr) = true) :
    dqRun env ⟨.env inside, acc, nl⟩ (body ++ c_rbr :: tail) =
      dqRun env ⟨.plain, (envLookup env (inside.reverse ++ body)).reverse ++ acc, nl + nlCount body⟩ tail := by
  induction body generalizing inside nl with
  | nil => simp [dqRun, dqStep, nlCount]
  | cons c cs ih =>
    simp only [List.all_cons, Bool.and_eq_true, bne_iff_ne, ne_eq] at h
    have hc : c ≠ c_rbr := h.1
    rw [List.cons_append, dqRun_inl env _ ⟨.env (c :: inside), acc, if c = c_nl then nl + 1 else nl⟩ _ _ (by simp [dqStep, hc])]
    rw [ih (c :: inside) _ (by simpa using h.2)]
    by_cases hn : c = c_nl
    · subst hn
      have : nlCount (c_nl :: cs) = nlCount cs + 1 := by simp [nlCount]
      rw [this]
      have e : (if c_nl = c_nl then nl + 1 else nl) + nlCount cs = nl + (nlCount cs + 1) := by simp; omega
      rw [e]; simp
    · have : nlCount (c :: cs) = nlCount cs := by simp [nlCount, hn]
      rw [this]; simp [hn]

theorem hasRbr_append_rbr (a b : Bytes) : hasRbr (a ++ c_rbr :: b) = true := by
  induction a with
  | nil => simp [hasRbr]
  | cons c cs ih => simp [hasRbr, ih]

/-! ### digit runs -/

theorem isOct_isDec (c : Nat) (h : isOct c = true) : isDec c = true := by
  simp [isOct, isDec] at *; omega

/-- an all-octal digit run read in `.digits` mode -/
theorem dqRun_digits (env : Env) (ds : List Nat) (n v : Nat) (acc : Bytes) (nl : Nat) (tail : Bytes)
    (h : ds.all isOct = true) :
    dqRun env ⟨.digits n true v, acc, nl⟩ (ds ++ tail) =
      dqRun env ⟨.digits (n + ds.length) true (ds.foldl (fun a d => a * 8 + (d - 48)) v), acc, nl⟩ tail := by
  induction ds generalizing n v with
  | nil => simp
  | cons d ds ih =>
    simp only [List.all_cons, Bool.and_eq_true] at h
    rw [List.cons_append, dqRun_inl env _ ⟨.digits (n + 1) true (v * 8 + (d - 48)), acc, nl⟩ _ _
      (by simp [dqStep, isOct_isDec d h.1, h.1])]
    rw [ih (n + 1) (v * 8 + (d - 48)) h.2]
    simp [Nat.add_assoc, Nat.add_comm 1]

end Confuse

namespace Confuse
open Confuse.Spec

/-- a decimal digit run read in `.digits` mode -/
theorem dqRun_decdigits (env : Env) (ds : List Nat) (n v : Nat) (ao : Bool) (acc : Bytes) (nl : Nat) (tail : Bytes)
    (h : ds.all isDec = true) :
    ∃ v', dqRun env ⟨.digits n ao v, acc, nl⟩ (ds ++ tail) =
      dqRun env ⟨.digits (n + ds.length) (ao && ds.all isOct) v', acc, nl⟩ tail := by
  induction ds generalizing n v ao with
  | nil => exact ⟨v, by simp⟩
  | cons d ds ih =>
    simp only [List.all_cons, Bool.and_eq_true] at h
    obtain ⟨v', hv'⟩ := ih (n + 1) (v * 8 + (d - 48)) (ao && isOct d) h.2
    refine ⟨v', ?_⟩
    rw [List.cons_append, dqRun_inl env _ ⟨.digits (n + 1) (ao && isOct d) (v * 8 + (d - 48)), acc, nl⟩ _ _
      (by simp [dqStep, h.1])]
    rw [hv']
    simp [Nat.add_assoc, Nat.add_comm 1, Bool.and_assoc]

/-- all items of a normal body -/
theorem dq_items_aux (item : ∀ (i : DqItem) (acc : Bytes) (nl : Nat) (tail : Bytes),
      i.wf = true → i.okNext tail = true →
      dqRun env ⟨.plain, acc, nl⟩ (i.render ++ tail) = dqRun env ⟨.plain, (i.value env).reverse ++ acc, nl + i.newlines⟩ tail)
    (items : List DqItem) (acc : Bytes) (nl : Nat) (tail : Bytes) (h : NormalDq items tail) :
    dqRun env ⟨.plain, acc, nl⟩ (renderDq items ++ tail) =
      dqRun env ⟨.plain, (valueDq env items).reverse ++ acc, nl + newlinesDq items⟩ tail := by
  induction items generalizing acc nl with
  | nil => simp [renderDq, valueDq, newlinesDq]
  | cons i is ih =>
    obtain ⟨hwf, hnext, hrest⟩ := h
    simp only [renderDq, List.append_assoc]
    rw [item i acc nl _ hwf hnext, ih _ _ hrest]
    simp [valueDq, newlinesDq, Nat.add_assoc]

/-! ### single-quoted -/

theorem sq_item (i : SqItem) (acc : Bytes) (nl : Nat) (tail : Bytes) (hwf : i.wf = true) :
    sqRun .plain acc nl (i.render ++ tail) = sqRun .plain (i.value.reverse ++ acc) (nl + i.newlines) tail := by
  cases i with
  | plain c =>
    simp only [SqItem.wf, Bool.and_eq_true, bne_iff_ne, ne_eq] at hwf
    simp [SqItem.render, SqItem.value, SqItem.newlines, sqRun, hwf.1.1, hwf.1.2, hwf.2]
  | nl => simp [SqItem.render, SqItem.value, SqItem.newlines, sqRun]
  | cont => simp [SqItem.render, SqItem.value, SqItem.newlines, sqRun]
  | escQuote => simp [SqItem.render, SqItem.value, SqItem.newlines, sqRun]
  | escBackslash => simp [SqItem.render, SqItem.value, SqItem.newlines, sqRun]
  | keep c =>
    simp only [SqItem.wf, Bool.and_eq_true, bne_iff_ne, ne_eq] at hwf
    simp [SqItem.render, SqItem.value, SqItem.newlines, sqRun, hwf.1.1, hwf.1.2, hwf.2]

theorem sq_items (items : List SqItem) (acc : Bytes) (nl : Nat) (tail : Bytes)
    (h : ∀ i ∈ items, i.wf = true) :
    sqRun .plain acc nl (renderSq items ++ tail) =
      sqRun .plain ((valueSq items).reverse ++ acc) (nl + newlinesSq items) tail := by
  induction items generalizing acc nl with
  | nil => simp [renderSq, valueSq, newlinesSq]
  | cons i is ih =>
    simp only [renderSq, List.append_assoc]
    rw [sq_item i acc nl _ (h i (by simp)), ih _ _ (fun j hj => h j (by simp [hj]))]
    simp [valueSq, newlinesSq, Nat.add_assoc]

end Confuse
