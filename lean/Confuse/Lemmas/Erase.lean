import Confuse.Lemmas.Total
/-!
# Erasing positions and annotations

`eraseCfg` forgets, at every depth of a configuration tree, the file name and line of each
context and the annotation (comment text and COMMENTS bit) of each option.  `erasePM` does the same
to every frame of a machine, to the pending annotation, to the positions of the diagnostics and to
the saved positions of the source stack.  The token machine commutes with the erasure
(`pstep_erase`): values, acceptance, callbacks and the classes of the diagnostics never depend on
where a token stood in which file, nor on annotations.
-/
namespace Confuse

def eraseInfo (i : CfgInfo) : CfgInfo := { i with line := 0, filename := none }

mutual
def eraseVal : Val → Val
  | .sec c => .sec (eraseCfg c)
  | .int n => .int n
  | .flt b => .flt b
  | .bool b => .bool b
  | .str s => .str s
  | .ptr p => .ptr p
def eraseVals : List Val → List Val
  | [] => []
  | v :: vs => eraseVal v :: eraseVals vs
def eraseOpt : Opt → Opt
  | .mk i f s vs _ => .mk i { f with comments := false } s (eraseVals vs) none
def eraseOpts : List Opt → List Opt
  | [] => []
  | o :: os => eraseOpt o :: eraseOpts os
def eraseCfg : Cfg → Cfg
  | .mk i os => .mk (eraseInfo i) (eraseOpts os)
end

theorem eraseVals_eq_map (vs : List Val) : eraseVals vs = vs.map eraseVal := by
  induction vs with
  | nil => rfl
  | cons v vs ih => simp [eraseVals, ih]

theorem eraseOpts_eq_map (os : List Opt) : eraseOpts os = os.map eraseOpt := by
  induction os with
  | nil => rfl
  | cons o os ih => simp [eraseOpts, ih]

@[simp] theorem eraseCfg_info (c : Cfg) : (eraseCfg c).info = eraseInfo c.info := by cases c; rfl
@[simp] theorem eraseCfg_opts (c : Cfg) : (eraseCfg c).opts = c.opts.map eraseOpt := by
  cases c; simp [eraseCfg, Cfg.opts, eraseOpts_eq_map]
@[simp] theorem eraseCfg_flags (c : Cfg) : (eraseCfg c).flags = c.flags := by cases c; rfl
@[simp] theorem eraseInfo_flags (i : CfgInfo) : (eraseInfo i).flags = i.flags := rfl
@[simp] theorem eraseInfo_title (i : CfgInfo) : (eraseInfo i).title = i.title := rfl
@[simp] theorem eraseInfo_name (i : CfgInfo) : (eraseInfo i).name = i.name := rfl
@[simp] theorem eraseInfo_line (i : CfgInfo) : (eraseInfo i).line = 0 := rfl
@[simp] theorem eraseInfo_filename (i : CfgInfo) : (eraseInfo i).filename = none := rfl
@[simp] theorem eraseInfo_idem (i : CfgInfo) : eraseInfo (eraseInfo i) = eraseInfo i := rfl

@[simp] theorem eraseOpt_info (o : Opt) : (eraseOpt o).info = o.info := by cases o; rfl
@[simp] theorem eraseOpt_subs (o : Opt) : (eraseOpt o).subs = o.subs := by cases o; rfl
@[simp] theorem eraseOpt_vals (o : Opt) : (eraseOpt o).vals = o.vals.map eraseVal := by
  cases o; simp [eraseOpt, Opt.vals, eraseVals_eq_map]
@[simp] theorem eraseOpt_comment (o : Opt) : (eraseOpt o).comment = none := by cases o; rfl
@[simp] theorem eraseOpt_name (o : Opt) : (eraseOpt o).name = o.name := by cases o; rfl
@[simp] theorem eraseOpt_ty (o : Opt) : (eraseOpt o).ty = o.ty := by cases o; rfl
theorem eraseOpt_flags (o : Opt) : (eraseOpt o).flags = { o.flags with comments := false } := by cases o; rfl
@[simp] theorem eraseOpt_flags_list (o : Opt) : (eraseOpt o).flags.list = o.flags.list := by cases o; rfl
@[simp] theorem eraseOpt_flags_multi (o : Opt) : (eraseOpt o).flags.multi = o.flags.multi := by cases o; rfl
@[simp] theorem eraseOpt_flags_title (o : Opt) : (eraseOpt o).flags.title = o.flags.title := by cases o; rfl
@[simp] theorem eraseOpt_flags_reset (o : Opt) : (eraseOpt o).flags.reset = o.flags.reset := by cases o; rfl
@[simp] theorem eraseOpt_flags_nocase (o : Opt) : (eraseOpt o).flags.nocase = o.flags.nocase := by cases o; rfl
@[simp] theorem eraseOpt_flags_deprecated (o : Opt) : (eraseOpt o).flags.deprecated = o.flags.deprecated := by cases o; rfl
@[simp] theorem eraseOpt_flags_drop (o : Opt) : (eraseOpt o).flags.drop = o.flags.drop := by cases o; rfl
@[simp] theorem eraseOpt_flags_noTitleDupes (o : Opt) : (eraseOpt o).flags.noTitleDupes = o.flags.noTitleDupes := by cases o; rfl
@[simp] theorem eraseOpt_flags_keystrval (o : Opt) : (eraseOpt o).flags.keystrval = o.flags.keystrval := by cases o; rfl

theorem listSet_map {α β} (g : α → β) (l : List α) (i : Nat) (y : α) : (listSet l i y).map g = listSet (l.map g) i (g y) := by
  induction l generalizing i with
  | nil => rfl
  | cons x xs ih => cases i <;> simp [listSet, ih]

/-! ### lens -/

theorem child_erase (c : Cfg) (oi ii : Nat) : (eraseCfg c).child oi ii = (c.child oi ii).map eraseCfg := by
  unfold Cfg.child
  simp only [eraseCfg_opts, List.getElem?_map]
  cases c.opts[oi]? with
  | none => rfl
  | some o =>
    simp only [Option.map_some, eraseOpt_vals, List.getElem?_map]
    cases o.vals[ii]? with
    | none => rfl
    | some v => cases v <;> simp [eraseVal]

theorem getOptAt_erase : ∀ (steps : List (Nat × Nat)) (c : Cfg) (leaf : Nat),
    getOptAt (eraseCfg c) steps leaf = (getOptAt c steps leaf).map eraseOpt := by
  intro steps
  induction steps with
  | nil => intro c leaf; simp [getOptAt]
  | cons st rest ih =>
    intro c leaf
    obtain ⟨oi, ii⟩ := st
    simp only [getOptAt, child_erase]
    cases c.child oi ii with
    | none => rfl
    | some s => simp [ih]

@[simp] theorem getOpt_erase (c : Cfg) (r : OptRef) : (eraseCfg c).getOpt r = (c.getOpt r).map eraseOpt :=
  getOptAt_erase r.steps c r.leaf

theorem setOpts_erase (c : Cfg) (os : List Opt) : eraseCfg (c.setOpts os) = (eraseCfg c).setOpts (os.map eraseOpt) := by
  cases c; simp [Cfg.setOpts, eraseCfg, Cfg.info, eraseOpts_eq_map]

theorem setVals_erase (o : Opt) (vs : List Val) : eraseOpt (o.setVals vs) = (eraseOpt o).setVals (vs.map eraseVal) := by
  cases o; simp [Opt.setVals, eraseOpt, Opt.info, Opt.flags, Opt.subs, Opt.comment, eraseVals_eq_map]

theorem setChild_erase (c : Cfg) (oi ii : Nat) (s : Cfg) :
    eraseCfg (c.setChild oi ii s) = (eraseCfg c).setChild oi ii (eraseCfg s) := by
  unfold Cfg.setChild
  simp only [eraseCfg_opts, List.getElem?_map]
  cases c.opts[oi]? with
  | none => rfl
  | some o => simp [setOpts_erase, listSet_map, setVals_erase, eraseVal]

theorem updOptAt_erase (o : Opt) : ∀ (steps : List (Nat × Nat)) (c : Cfg) (leaf : Nat),
    eraseCfg (updOptAt (fun _ => o) c steps leaf) = updOptAt (fun _ => eraseOpt o) (eraseCfg c) steps leaf := by
  intro steps
  induction steps with
  | nil =>
    intro c leaf
    simp only [updOptAt, eraseCfg_opts, List.getElem?_map]
    cases c.opts[leaf]? with
    | none => rfl
    | some o' => simp [setOpts_erase, listSet_map]
  | cons st rest ih =>
    intro c leaf
    obtain ⟨oi, ii⟩ := st
    simp only [updOptAt, child_erase]
    cases c.child oi ii with
    | none => rfl
    | some s => simp [setChild_erase, ih]

@[simp] theorem setOpt_erase (c : Cfg) (r : OptRef) (o : Opt) : eraseCfg (c.setOpt r o) = (eraseCfg c).setOpt r (eraseOpt o) :=
  updOptAt_erase o r.steps c r.leaf


/-! ### look-ups by name and title -/

theorem findOptIdx_erase (nocase : Bool) (name : Bytes) : ∀ (os : List Opt) (i : Nat),
    findOptIdx nocase name (os.map eraseOpt) i = findOptIdx nocase name os i := by
  intro os
  induction os with
  | nil => intro i; rfl
  | cons o os ih => intro i; simp [findOptIdx, ih]

@[simp] theorem getoptLeaf_erase (c : Cfg) (name : Bytes) : getoptLeaf (eraseCfg c) name = getoptLeaf c name := by
  simp [getoptLeaf, findOptIdx_erase]

theorem gettsecidx_go_erase (o : Opt) (title : Bytes) : ∀ (vs : List Val) (i : Nat),
    gettsecidx.go (eraseOpt o) title (vs.map eraseVal) i = gettsecidx.go o title vs i := by
  intro vs
  induction vs with
  | nil => intro i; rfl
  | cons v vs ih =>
    intro i
    cases v with
    | sec c =>
      simp only [List.map_cons, eraseVal, gettsecidx.go, eraseCfg_info, eraseInfo_title, eraseOpt_flags_nocase]
      cases c.info.title with
      | none => rfl
      | some t => simp only []; split <;> simp [ih]
    | _ => simp [eraseVal, gettsecidx.go]

@[simp] theorem gettsecidx_erase (o : Opt) (title : Bytes) : gettsecidx (eraseOpt o) title = gettsecidx o title := by
  simp [gettsecidx, gettsecidx_go_erase]

theorem findTitle_erase (nocase : Bool) (t : Bytes) : ∀ (vs : List Val) (i : Nat),
    findTitle nocase t (vs.map eraseVal) i = findTitle nocase t vs i := by
  intro vs
  induction vs with
  | nil => intro i; rfl
  | cons v vs ih =>
    intro i
    cases v with
    | sec c =>
      simp only [List.map_cons, eraseVal, findTitle, eraseCfg_info, eraseInfo_title]
      cases c.info.title with
      | none => simp [ih]
      | some t' => simp only []; split <;> simp [ih]
    | _ => simp [eraseVal, findTitle, ih]


theorem pathOpt_erase (sec : Cfg) (secname : Bytes) :
    pathOpt (eraseCfg sec) secname = (pathOpt sec secname).map (fun x => (x.1, eraseOpt x.2)) := by
  unfold pathOpt
  simp only [getoptLeaf_erase, eraseCfg_opts, List.getElem?_map]
  cases getoptLeaf sec secname with
  | none => rfl
  | some oi =>
    simp only []
    cases sec.opts[oi]? with
    | none => rfl
    | some o =>
      simp only [Option.map_some, eraseOpt_ty]
      split <;> rfl

@[simp] theorem pathQual_erase (o : Opt) (after : Bytes) (len : Nat) : pathQual (eraseOpt o) after len = pathQual o after len := by
  unfold pathQual
  simp only [eraseOpt_flags_multi, eraseOpt_flags_title, gettsecidx_erase]

theorem pathInst_erase (o : Opt) (i : Int) : pathInst (eraseOpt o) i = (pathInst o i).map (fun x => (x.1, eraseCfg x.2)) := by
  unfold pathInst
  simp only [eraseOpt_vals, List.length_map, List.getElem?_map]
  split
  · cases o.vals[i.toNat]? with
    | none => rfl
    | some v => cases v <;> simp [eraseVal]
  · rfl

theorem secidxLoop_erase (w : Bool) : ∀ (fuel : Nat) (sec : Cfg) (steps : List (Nat × Nat)) (lo : Option OptRef) (li : Int) (name : Bytes),
    secidxLoop w fuel (eraseCfg sec) steps lo li name = secidxLoop w fuel sec steps lo li name := by
  intro fuel
  induction fuel with
  | zero => intros; rfl
  | succ n ih =>
    intro sec steps lo li name
    rw [secidxLoop, secidxLoop]
    simp only [getoptLeaf_erase, eraseCfg_flags, pathOpt_erase]
    cases pathOpt sec (List.takeWhile (fun c => !isSep c) name) with
    | none => rfl
    | some x =>
      obtain ⟨oi, o⟩ := x
      simp only [Option.map_some, pathQual_erase, pathInst_erase, eraseOpt_flags_multi]
      cases pathInst o (pathQual o (List.drop (List.takeWhile (fun c => !isSep c) name).length name) (List.takeWhile (fun c => !isSep c) name).length).1 with
      | none => rfl
      | some y =>
        obtain ⟨ii, s⟩ := y
        simp only [Option.map_some, ih]

@[simp] theorem keyFirst_erase (c : Cfg) (name : Bytes) (w : Bool) : keyFirst (eraseCfg c) name w = keyFirst c name w := by
  unfold keyFirst
  simp only [getoptLeaf_erase, eraseCfg_flags]

@[simp] theorem getoptPath_erase (c : Cfg) (name : Bytes) : getoptPath (eraseCfg c) name = getoptPath c name := by
  unfold getoptPath getoptSecidx
  simp only [secidxLoop_erase, eraseCfg_flags, keyFirst_erase]


/-! ### the store under erasure -/

mutual
theorem freeEvVal_erase (cb : Bool) : ∀ v : Val, freeEvVal cb (eraseVal v) = freeEvVal cb v
  | .sec c => by simp only [eraseVal, freeEvVal]; exact freeEvCfg_erase c
  | .int _ => rfl
  | .flt _ => rfl
  | .bool _ => rfl
  | .str _ => rfl
  | .ptr _ => rfl
theorem freeEvVals_erase (cb : Bool) : ∀ vs : List Val, freeEvVals cb (eraseVals vs) = freeEvVals cb vs
  | [] => rfl
  | v :: vs => by simp only [eraseVals, freeEvVals, freeEvVal_erase cb v, freeEvVals_erase cb vs]
theorem freeEvOpt_erase : ∀ o : Opt, freeEvOpt (eraseOpt o) = freeEvOpt o
  | .mk i f s vs c => by simp only [eraseOpt, freeEvOpt, freeEvVals_erase]
theorem freeEvOpts_erase : ∀ os : List Opt, freeEvOpts (eraseOpts os) = freeEvOpts os
  | [] => rfl
  | o :: os => by simp only [eraseOpts, freeEvOpts, freeEvOpt_erase o, freeEvOpts_erase os]
theorem freeEvCfg_erase : ∀ c : Cfg, freeEvCfg (eraseCfg c) = freeEvCfg c
  | .mk i os => by simp only [eraseCfg, freeEvCfg, freeEvOpts_erase]
end

theorem freeValue_erase (o : Opt) : freeValue (eraseOpt o) = (eraseOpt (freeValue o).1, (freeValue o).2) := by
  obtain ⟨i, f, s, vs, c⟩ := o
  simp [freeValue, eraseOpt, Opt.info, Opt.flags, Opt.subs, Opt.comment, eraseVals]
  have := freeEvOpt_erase (.mk i f s vs c)
  refine ⟨by by_cases h : f.reset = true <;> simp [h], ?_⟩
  simpa [eraseOpt] using this

theorem dropDefaults_erase (o : Opt) : dropDefaults (eraseOpt o) = (eraseOpt (dropDefaults o).1, (dropDefaults o).2) := by
  unfold dropDefaults
  simp only [eraseOpt_flags_reset, freeValue_erase]
  split
  · obtain ⟨i, f, s, vs, c⟩ := o
    simp [freeValue, eraseOpt, Opt.setFlags, Opt.info, Opt.flags, Opt.subs, Opt.comment, Opt.vals, eraseVals]
  · rfl

@[simp] theorem setoptConvert_erase (orc : Oracle) (k : Nat) (o : Opt) (v : Option Bytes) :
    setoptConvert orc k (eraseOpt o) v = setoptConvert orc k o v := by
  unfold setoptConvert
  simp only [eraseOpt_name, eraseOpt_ty, eraseOpt_info]


theorem sectionInfo_erase (ci : CfgInfo) (name : Bytes) (fl : Flags) (t : Option Bytes) :
    sectionInfo (eraseInfo ci) name fl t = eraseInfo (sectionInfo ci name fl t) := rfl

mutual
theorem mkOpt_erase (ci : CfgInfo) : ∀ d : Decl, eraseOpt (mkOpt (eraseInfo ci) d) = eraseOpt (mkOpt ci d)
  | .mk info flags subs => by
    unfold mkOpt
    split
    · rfl
    · split
      · rfl
      · split
        · rfl
        · split
          · simp only [sectionInfo_erase, eraseOpt, eraseVals, eraseVal, eraseCfg, eraseInfo_idem]
            have := mkOpts_erase (sectionInfo ci info.name flags none) subs
            simp only [this]
          · rfl
theorem mkOpts_erase (ci : CfgInfo) : ∀ ds : List Decl, eraseOpts (mkOpts (eraseInfo ci) ds) = eraseOpts (mkOpts ci ds)
  | [] => rfl
  | d :: ds => by simp only [mkOpts, eraseOpts, mkOpt_erase ci d, mkOpts_erase ci ds]
end

theorem mkSection_erase (ci : CfgInfo) (o : Opt) (t : Option Bytes) :
    eraseCfg (mkSection (eraseInfo ci) (eraseOpt o) t) = eraseCfg (mkSection ci o t) := by
  simp only [mkSection, eraseOpt_name, eraseOpt_subs, eraseCfg, sectionInfo_erase, eraseInfo_idem]
  have h1 : sectionInfo ci o.name (eraseOpt o).flags t = sectionInfo ci o.name o.flags t := by
    simp [sectionInfo]
  rw [h1, mkOpts_erase]


mutual
theorem eraseVal_idem : ∀ v : Val, eraseVal (eraseVal v) = eraseVal v
  | .sec c => by simp only [eraseVal, eraseCfg_idem c]
  | .int _ => rfl
  | .flt _ => rfl
  | .bool _ => rfl
  | .str _ => rfl
  | .ptr _ => rfl
theorem eraseVals_idem : ∀ vs : List Val, eraseVals (eraseVals vs) = eraseVals vs
  | [] => rfl
  | v :: vs => by simp only [eraseVals, eraseVal_idem v, eraseVals_idem vs]
theorem eraseOpt_idem : ∀ o : Opt, eraseOpt (eraseOpt o) = eraseOpt o
  | .mk i f s vs c => by simp only [eraseOpt, eraseVals_idem]
theorem eraseOpts_idem : ∀ os : List Opt, eraseOpts (eraseOpts os) = eraseOpts os
  | [] => rfl
  | o :: os => by simp only [eraseOpts, eraseOpt_idem o, eraseOpts_idem os]
theorem eraseCfg_idem : ∀ c : Cfg, eraseCfg (eraseCfg c) = eraseCfg c
  | .mk i os => by simp only [eraseCfg, eraseOpts_idem, eraseInfo_idem]
end
attribute [simp] eraseVal_idem eraseOpt_idem eraseCfg_idem
@[simp] theorem eraseVal_comp : eraseVal ∘ eraseVal = eraseVal := funext eraseVal_idem
@[simp] theorem eraseOpt_comp : eraseOpt ∘ eraseOpt = eraseOpt := funext eraseOpt_idem

theorem setoptStore_erase (ci : CfgInfo) (o1 : Opt) (cv : Conv) (v : Option Bytes) (app : Bool) (found : Option Nat) :
    (setoptStore (eraseInfo ci) (eraseOpt o1) cv v app found).1 = (setoptStore ci o1 cv v app found).1 ∧
    (setoptStore (eraseInfo ci) (eraseOpt o1) cv v app found).2.1.map eraseVal = (setoptStore ci o1 cv v app found).2.1.map eraseVal ∧
    (setoptStore (eraseInfo ci) (eraseOpt o1) cv v app found).2.2 = (setoptStore ci o1 cv v app found).2.2 := by
  unfold setoptStore
  simp only [eraseOpt_vals, List.length_map, List.getElem?_map, eraseOpt_flags_multi, eraseOpt_info]
  generalize hidx : (if app = true then (match found with | some i => i | none => o1.vals.length) else 0) = idx
  generalize hnew : (app && found.isNone) = isNew
  cases isNew with
  | true =>
    simp only [if_true]
    refine ⟨trivial, ?_, ?_⟩
    · cases cv <;> simp [listSet_map, eraseVal, mkSection_erase]
    · cases cv <;> simp
  | false =>
    simp only [Bool.false_eq_true, if_false]
    cases hold : o1.vals[idx]? with
    | none =>
      refine ⟨trivial, ?_, ?_⟩
      · cases cv <;> simp [listSet_map, eraseVal, mkSection_erase]
      · cases cv <;> simp
    | some old =>
      simp only [Option.map_some]
      refine ⟨trivial, ?_, ?_⟩
      · cases cv <;> cases old <;> simp [listSet_map, eraseVal, mkSection_erase]
        all_goals (split <;> simp [eraseVal, mkSection_erase])
      · cases cv <;> cases old <;> simp [eraseVal, freeEvCfg_erase]


def SRel (a b : SetOut) : Prop :=
  eraseOpt a.opt = eraseOpt b.opt ∧ a.res = b.res ∧ a.diags = b.diags ∧ a.calls = b.calls

theorem srel_ite (c : Prop) [Decidable c] (a a' b b' : SetOut) (h1 : SRel a a') (h2 : SRel b b') :
    SRel (if c then a else b) (if c then a' else b') := by
  split <;> assumption

theorem setopt_erase (orc : Oracle) (k : Nat) (ci : CfgInfo) (o : Opt) (v : Option Bytes) :
    SRel (setopt orc k (eraseInfo ci) (eraseOpt o) v) (setopt orc k ci o v) := by
  unfold setopt
  simp only [setoptConvert_erase, dropDefaults_erase]
  cases hcv : setoptConvert orc k o v with
  | error e => simp [SRel]
  | ok p =>
    simp only []
    generalize dropDefaults o = dd
    obtain ⟨o1, ev1⟩ := dd
    simp only [eraseOpt_vals, List.length_map, eraseOpt_flags_multi, eraseOpt_flags_list, eraseOpt_ty, eraseOpt_flags_title,
      eraseInfo_flags, findTitle_erase, eraseOpt_flags_noTitleDupes]
    refine srel_ite _ _ _ _ _ (by simp [SRel]) (srel_ite _ _ _ _ _ (by simp [SRel]) ?_)
    refine ⟨?_, ?_, rfl, ?_⟩
    · simp only [eraseOpt, eraseOpt_info, eraseOpt_subs, eraseVals_eq_map]
      rw [(setoptStore_erase ci o1 p.1 v _ _).2.1]
      simp [eraseOpt_flags]
    · exact congrArg some (setoptStore_erase ci o1 p.1 v _ _).1
    · simp only []
      rw [(setoptStore_erase ci o1 p.1 v _ _).2.2]


/-! ### frames and machines -/

def eraseFrame (f : Frame) : Frame := { f with cfg := eraseCfg f.cfg, comment := none }
def eraseDiag (d : Diag) : Diag := { d with file := none, line := 0 }
def eraseSrc (s : Src) : Src := { s with savedFile := none, savedLine := 0 }
def erasePM (m : PM) : PM :=
  { m with frames := m.frames.map eraseFrame, diags := m.diags.map eraseDiag, srcs := m.srcs.map eraseSrc }

@[simp] theorem eraseFrame_idem (f : Frame) : eraseFrame (eraseFrame f) = eraseFrame f := by
  simp [eraseFrame]
@[simp] theorem eraseFrame_comp : eraseFrame ∘ eraseFrame = eraseFrame := funext eraseFrame_idem
@[simp] theorem eraseDiag_idem (d : Diag) : eraseDiag (eraseDiag d) = eraseDiag d := rfl
@[simp] theorem eraseDiag_comp : eraseDiag ∘ eraseDiag = eraseDiag := funext eraseDiag_idem
@[simp] theorem eraseSrc_idem (s : Src) : eraseSrc (eraseSrc s) = eraseSrc s := rfl
@[simp] theorem eraseSrc_comp : eraseSrc ∘ eraseSrc = eraseSrc := funext eraseSrc_idem
@[simp] theorem erasePM_idem (m : PM) : erasePM (erasePM m) = erasePM m := by
  simp [erasePM]

@[simp] theorem erasePM_status (m : PM) : (erasePM m).status = m.status := rfl
@[simp] theorem erasePM_trace (m : PM) : (erasePM m).trace = m.trace := rfl
@[simp] theorem erasePM_k (m : PM) : (erasePM m).k = m.k := rfl
@[simp] theorem eraseFrame_state (f : Frame) : (eraseFrame f).state = f.state := rfl
@[simp] theorem eraseFrame_opt (f : Frame) : (eraseFrame f).opt = f.opt := rfl
@[simp] theorem eraseFrame_level (f : Frame) : (eraseFrame f).level = f.level := rfl
@[simp] theorem eraseFrame_cfg (f : Frame) : (eraseFrame f).cfg = eraseCfg f.cfg := rfl
@[simp] theorem eraseFrame_comment (f : Frame) : (eraseFrame f).comment = none := rfl
@[simp] theorem eraseFrame_back (f : Frame) : (eraseFrame f).back = f.back := rfl

@[simp] theorem eraseDiag_diag (f : Frame) (c : DiagCls) : eraseDiag (f.diag c) = (eraseFrame f).diag c := by
  simp [Frame.diag, eraseDiag, eraseFrame]

@[simp] theorem eraseDiag_comp_diag (f : Frame) : eraseDiag ∘ f.diag = (eraseFrame f).diag := funext (eraseDiag_diag f)

theorem eraseFrame_diag_any (f g : Frame) (c : DiagCls) : (eraseFrame f).diag c = (eraseFrame g).diag c := by
  simp [Frame.diag, eraseFrame]

theorem writeBack_erase (p c : Frame) : eraseFrame (writeBack p c) = writeBack (eraseFrame p) (eraseFrame c) := by
  unfold writeBack
  simp only [eraseFrame_back, eraseFrame_cfg, getOpt_erase]
  cases c.back with
  | none => rfl
  | some ri =>
    obtain ⟨r, i⟩ := ri
    simp only []
    cases p.cfg.getOpt r with
    | none => rfl
    | some o =>
      simp only [Option.map_some]
      simp [eraseFrame, setVals_erase, listSet_map, eraseVal]

theorem collapseInto_erase (c : Frame) (ps : List Frame) :
    eraseFrame (collapseInto c ps) = collapseInto (eraseFrame c) (ps.map eraseFrame) := by
  induction ps generalizing c with
  | nil => rfl
  | cons p ps ih => simp only [collapseInto, List.map_cons, ih, writeBack_erase]

theorem reject_erase (m : PM) (f : Frame) (rest : List Frame) :
    erasePM (m.reject f rest) = (erasePM m).reject (eraseFrame f) (rest.map eraseFrame) := by
  simp [PM.reject, collapse, erasePM, collapseInto_erase]

theorem addDiags_erase (m : PM) (f : Frame) (cs : List DiagCls) :
    erasePM (m.addDiags f cs) = (erasePM m).addDiags (eraseFrame f) cs := by
  simp [PM.addDiags, erasePM, List.map_reverse, Function.comp_def]

theorem addCalls_erase (m : PM) (cs : List CbCall) : erasePM (m.addCalls cs) = (erasePM m).addCalls cs := by
  simp [PM.addCalls, erasePM]

theorem rejectWith_erase (m : PM) (f : Frame) (rest : List Frame) (c : DiagCls) :
    erasePM (m.rejectWith f rest c) = (erasePM m).rejectWith (eraseFrame f) (rest.map eraseFrame) c := by
  simp [PM.rejectWith, reject_erase, addDiags_erase]


theorem snap_erase (v : Val) : (eraseVal v).snap = v.snap := by
  cases v <;> simp [eraseVal, Val.snap]

theorem depEffect_erase (f : Frame) :
    depEffect (eraseFrame f) = ((depEffect f).1, (depEffect f).2.1, eraseFrame (depEffect f).2.2) := by
  unfold depEffect
  simp only [eraseFrame_opt, eraseFrame_cfg, getOpt_erase]
  cases f.opt with
  | none => rfl
  | some r =>
    simp only []
    cases f.cfg.getOpt r with
    | none => rfl
    | some o =>
      simp only [Option.map_some, eraseOpt_flags_deprecated, eraseOpt_flags_drop, freeValue_erase]
      split
      · split
        · simp [eraseFrame]
        · rfl
      · rfl

@[simp] theorem validVerdict_erase (orc : Oracle) (k : Nat) (f : Frame) : validVerdict orc k (eraseFrame f) = validVerdict orc k f := by
  unfold validVerdict
  simp only [eraseFrame_opt, eraseFrame_cfg, getOpt_erase]
  cases f.opt with
  | none => rfl
  | some r =>
    simp only []
    cases f.cfg.getOpt r with
    | none => rfl
    | some o =>
      simp only [Option.map_some, eraseOpt_info, eraseOpt_name, eraseOpt_vals, List.map_map]
      have : (Val.snap ∘ eraseVal) = Val.snap := funext snap_erase
      rw [this]

theorem vetoed_erase (orc : Oracle) (m : PM) (f : Frame) :
    erasePM (vetoed orc m f) = vetoed orc (erasePM m) (eraseFrame f) := by
  unfold vetoed
  simp only [eraseFrame_opt, eraseFrame_cfg, getOpt_erase]
  cases f.opt with
  | none => rfl
  | some r =>
    simp only []
    cases f.cfg.getOpt r with
    | none => rfl
    | some o =>
      simp only [Option.map_some, eraseOpt_name, eraseOpt_vals, List.map_map, addDiags_erase, addCalls_erase]
      have : (Val.snap ∘ eraseVal) = Val.snap := funext snap_erase
      rw [this]


theorem listSet_same {α} (l : List α) (i : Nat) (x : α) (h : l[i]? = some x) : listSet l i x = l := by
  induction l generalizing i with
  | nil => rfl
  | cons y ys ih =>
    cases i with
    | zero => simp at h; simp [listSet, h]
    | succ k => simp at h; simp [listSet, ih k h]

theorem setOpts_same (c : Cfg) : c.setOpts c.opts = c := by cases c; rfl

theorem setChild_same (c : Cfg) (oi ii : Nat) (s : Cfg) (h : c.child oi ii = some s) : c.setChild oi ii s = c := by
  unfold Cfg.child at h
  unfold Cfg.setChild
  cases ho : c.opts[oi]? with
  | none => rfl
  | some o =>
    simp only [ho] at h ⊢
    cases hv : o.vals[ii]? with
    | none => simp [hv] at h
    | some v =>
      simp only [hv] at h
      cases v with
      | sec s' =>
        simp only [Option.some.injEq] at h
        subst h
        have h1 : o.setVals (listSet o.vals ii (Val.sec s')) = o := by
          rw [listSet_same o.vals ii _ hv]; cases o; rfl
        rw [h1, listSet_same c.opts oi o ho, setOpts_same]
      | _ => simp at h

theorem updOptAt_same : ∀ (steps : List (Nat × Nat)) (c : Cfg) (leaf : Nat) (o : Opt),
    getOptAt c steps leaf = some o → updOptAt (fun _ => o) c steps leaf = c := by
  intro steps
  induction steps with
  | nil =>
    intro c leaf o h
    simp only [getOptAt] at h
    simp only [updOptAt, h, listSet_same c.opts leaf o h, setOpts_same]
  | cons st rest ih =>
    intro c leaf o h
    obtain ⟨oi, ii⟩ := st
    simp only [getOptAt] at h
    simp only [updOptAt]
    cases hc : c.child oi ii with
    | none => rfl
    | some s =>
      simp only [hc] at h ⊢
      rw [ih s leaf o h, setChild_same c oi ii s hc]

theorem setOpt_same (c : Cfg) (r : OptRef) (o : Opt) (h : c.getOpt r = some o) : c.setOpt r o = c :=
  updOptAt_same r.steps c r.leaf o h

theorem inheritComment_erase (f : Frame)
    (hmod : ∀ r o, f.opt = some r → f.cfg.getOpt r = some o → o.flags.modified = true) :
    eraseFrame (inheritComment f) = eraseFrame f := by
  unfold inheritComment
  cases hc : f.comment with
  | none => simp [eraseFrame]
  | some c =>
    cases hopt : f.opt with
    | none => simp [eraseFrame, hopt]
    | some r =>
      simp only []
      cases hget : f.cfg.getOpt r with
      | none => simp [eraseFrame, hopt]
      | some o =>
        simp only []
        have hm := hmod r o hopt hget
        have e : eraseOpt (Opt.mk o.info { o.flags with comments := true, modified := true } o.subs o.vals (some c)) = eraseOpt o := by
          obtain ⟨i, fl, sb, vs, cm⟩ := o
          simp only [Opt.flags] at hm
          simp [eraseOpt, Opt.info, Opt.flags, Opt.subs, Opt.vals, hm]
        simp only [eraseFrame, setOpt_erase, e]
        have hg : (eraseCfg f.cfg).getOpt r = some (eraseOpt o) := by simp [hget]
        rw [setOpt_same _ r _ hg, hopt]

theorem inheritComment_erased (f : Frame) : inheritComment (eraseFrame f) = eraseFrame f := by
  unfold inheritComment
  simp [eraseFrame]


/-! ### congruence: equal erasures in, equal erasures out -/

theorem SRel.symm {a b : SetOut} (h : SRel a b) : SRel b a := ⟨h.1.symm, h.2.1.symm, h.2.2.1.symm, h.2.2.2.symm⟩
theorem SRel.trans {a b c : SetOut} (h1 : SRel a b) (h2 : SRel b c) : SRel a c :=
  ⟨h1.1.trans h2.1, h1.2.1.trans h2.2.1, h1.2.2.1.trans h2.2.2.1, h1.2.2.2.trans h2.2.2.2⟩

theorem setopt_congr (orc : Oracle) (k : Nat) (ci ci' : CfgInfo) (o o' : Opt) (v : Option Bytes)
    (hci : eraseInfo ci = eraseInfo ci') (ho : eraseOpt o = eraseOpt o') :
    SRel (setopt orc k ci o v) (setopt orc k ci' o' v) := by
  have h1 := setopt_erase orc k ci o v
  have h2 := setopt_erase orc k ci' o' v
  rw [hci, ho] at h1
  exact h1.symm.trans h2

theorem setOut_ite' (Q : SetOut → Prop) (c : Prop) [Decidable c] (a b : SetOut) (ha : Q a) (hb : Q b) :
    Q (if c then a else b) := by
  split <;> assumption

theorem setopt_modified (orc : Oracle) (k : Nat) (ci : CfgInfo) (o : Opt) (v : Option Bytes) :
    (setopt orc k ci o v).res ≠ none → (setopt orc k ci o v).opt.flags.modified = true := by
  unfold setopt
  cases hcv : setoptConvert orc k o v with
  | error e => simp
  | ok p =>
    simp only []
    refine setOut_ite' (fun s => s.res ≠ none → s.opt.flags.modified = true) _ _ _ (by simp) ?_
    refine setOut_ite' (fun s => s.res ≠ none → s.opt.flags.modified = true) _ _ _ (by simp) ?_
    intro _
    rfl

/-- frames with equal erasures agree on everything the parser's control flow looks at -/
theorem eraseFrame_eq_opt {f f' : Frame} (h : eraseFrame f = eraseFrame f') : f.opt = f'.opt := by
  have := congrArg Frame.opt h; simpa using this

theorem eraseFrame_eq_cfg {f f' : Frame} (h : eraseFrame f = eraseFrame f') : eraseCfg f.cfg = eraseCfg f'.cfg := by
  have := congrArg Frame.cfg h; simpa using this

theorem eraseCfg_eq_info {c c' : Cfg} (h : eraseCfg c = eraseCfg c') : eraseInfo c.info = eraseInfo c'.info := by
  have := congrArg Cfg.info h; simpa using this

theorem eraseCfg_eq_getOpt {c c' : Cfg} (h : eraseCfg c = eraseCfg c') (r : OptRef) :
    (c.getOpt r).map eraseOpt = (c'.getOpt r).map eraseOpt := by
  rw [← getOpt_erase, ← getOpt_erase, h]


theorem erasePM_eq_k {m m' : PM} (h : erasePM m = erasePM m') : m.k = m'.k := by
  have := congrArg PM.trace h
  simp only [erasePM_trace] at this
  simp [PM.k, this]

theorem erasePM_eq_status {m m' : PM} (h : erasePM m = erasePM m') : m.status = m'.status := by
  have := congrArg PM.status h; simpa using this

theorem eraseFrame_setCfg (f : Frame) (c : Cfg) : eraseFrame { f with cfg := c } = { eraseFrame f with cfg := eraseCfg c } := rfl

theorem storeValue_congr (orc : Oracle) (m m' : PM) (f f' : Frame) (rest rest' : List Frame) (v : Bytes) (next : PState)
    (hm : erasePM m = erasePM m') (hf : eraseFrame f = eraseFrame f') (hr : rest.map eraseFrame = rest'.map eraseFrame) :
    erasePM (storeValue orc m f rest v next) = erasePM (storeValue orc m' f' rest' v next) := by
  have hopt := eraseFrame_eq_opt hf
  have hcfg := eraseFrame_eq_cfg hf
  have hk := erasePM_eq_k hm
  unfold storeValue
  rw [← hopt]
  cases ho : f.opt with
  | none => simp only [reject_erase, hm, hf, hr]
  | some r =>
    simp only []
    have hg := eraseCfg_eq_getOpt hcfg r
    cases h1 : f.cfg.getOpt r with
    | none =>
      cases h2 : f'.cfg.getOpt r with
      | none => simp only [reject_erase, hm, hf, hr]
      | some o' => simp [h1, h2] at hg
    | some o =>
      cases h2 : f'.cfg.getOpt r with
      | none => simp [h1, h2] at hg
      | some o' =>
        simp only []
        have hoo : eraseOpt o = eraseOpt o' := by simpa [h1, h2] using hg
        have hs := setopt_congr orc m.k f.cfg.info f'.cfg.info o o' (some v) (eraseCfg_eq_info hcfg) hoo
        rw [← hk]
        have hmod := setopt_modified orc m.k f.cfg.info o (some v)
        have hmod' := setopt_modified orc m.k f'.cfg.info o' (some v)
        generalize setopt orc m.k f.cfg.info o (some v) = out at hs hmod ⊢
        generalize setopt orc m.k f'.cfg.info o' (some v) = out' at hs hmod' ⊢
        obtain ⟨e1, e2, e3, e4⟩ := hs
        have ho' : f'.opt = some r := by rw [← hopt, ho]
        have hf1 : eraseFrame { f with cfg := f.cfg.setOpt r out.opt, opt := some r } = eraseFrame { f' with cfg := f'.cfg.setOpt r out'.opt, opt := some r } := by
          have a : ({ f with cfg := f.cfg.setOpt r out.opt, opt := some r } : Frame) = { f with cfg := f.cfg.setOpt r out.opt } := by rw [← ho]
          have b : ({ f' with cfg := f'.cfg.setOpt r out'.opt, opt := some r } : Frame) = { f' with cfg := f'.cfg.setOpt r out'.opt } := by rw [← ho']
          rw [a, b, eraseFrame_setCfg f, eraseFrame_setCfg f', hf, setOpt_erase, setOpt_erase, hcfg, e1]
        have hm1 : erasePM ((m.addCalls out.calls).addDiags { f with cfg := f.cfg.setOpt r out.opt, opt := some r } out.diags) =
            erasePM ((m'.addCalls out'.calls).addDiags { f' with cfg := f'.cfg.setOpt r out'.opt, opt := some r } out'.diags) := by
          rw [addDiags_erase, addDiags_erase, addCalls_erase, addCalls_erase, hm, hf1, e3, e4]
        have hg1 : ({ f with cfg := f.cfg.setOpt r out.opt, opt := some r } : Frame).cfg.getOpt r = some out.opt := getOpt_setOpt f.cfg r o out.opt h1
        have hg1' : ({ f' with cfg := f'.cfg.setOpt r out'.opt, opt := some r } : Frame).cfg.getOpt r = some out'.opt := getOpt_setOpt f'.cfg r o' out'.opt h2
        have hop1 : ({ f with cfg := f.cfg.setOpt r out.opt, opt := some r } : Frame).opt = some r := rfl
        have hop1' : ({ f' with cfg := f'.cfg.setOpt r out'.opt, opt := some r } : Frame).opt = some r := rfl
        generalize ({ f with cfg := f.cfg.setOpt r out.opt, opt := some r } : Frame) = f1 at hf1 hm1 hg1 hop1 ⊢
        generalize ({ f' with cfg := f'.cfg.setOpt r out'.opt, opt := some r } : Frame) = f1' at hf1 hm1 hg1' hop1' ⊢
        generalize ((m.addCalls out.calls).addDiags f1 out.diags) = m1 at hm1 ⊢
        generalize ((m'.addCalls out'.calls).addDiags f1' out'.diags) = m1' at hm1 ⊢
        rw [← e2]
        cases hres : out.res with
        | none => simp only [reject_erase, hm1, hf1, hr]
        | some i =>
          simp only [runValid_spec]
          have hk1 := erasePM_eq_k hm1
          have hvv : validVerdict orc m1.k f1 = validVerdict orc m1'.k f1' := by
            rw [← validVerdict_erase orc m1.k f1, ← validVerdict_erase orc m1'.k f1', hf1, hk1]
          rw [← hvv]
          cases hv : validVerdict orc m1.k f1 with
          | none =>
            simp only [Option.map_none, reject_erase, vetoed_erase, hm1, hf1, hr]
          | some cs =>
            simp only [Option.map_some]
            have hic : eraseFrame (inheritComment f1) = eraseFrame (inheritComment f1') := by
              rw [inheritComment_erase f1, inheritComment_erase f1', hf1]
              · intro r2 o2 hr2 ho2
                rw [hop1'] at hr2
                simp only [Option.some.injEq] at hr2
                subst hr2
                rw [hg1'] at ho2
                simp only [Option.some.injEq] at ho2
                subst ho2
                exact hmod' (by rw [← e2, hres]; simp)
              · intro r2 o2 hr2 ho2
                rw [hop1] at hr2
                simp only [Option.some.injEq] at hr2
                subst hr2
                rw [hg1] at ho2
                simp only [Option.some.injEq] at ho2
                subst ho2
                exact hmod (by rw [hres]; simp)
            simp only [erasePM, PM.addCalls, List.map_cons] at hm1 ⊢
            have h5 : eraseFrame { inheritComment f1 with numValues := (inheritComment f1).numValues + 1, state := next } =
                eraseFrame { inheritComment f1' with numValues := (inheritComment f1').numValues + 1, state := next } := by
              have a1 := congrArg Frame.numValues hic
              simp only [eraseFrame] at hic a1 ⊢
              simp only [Frame.mk.injEq] at hic ⊢
              simp_all
            simp only [h5, hr]
            simp only [PM.mk.injEq] at hm1 ⊢
            simp_all


theorem eraseFrame_eq_iff (f f' : Frame) : eraseFrame f = eraseFrame f' ↔
    (eraseCfg f.cfg = eraseCfg f'.cfg ∧ f.level = f'.level ∧ f.state = f'.state ∧ f.opt = f'.opt ∧ f.opttitle = f'.opttitle ∧
      f.funcargs = f'.funcargs ∧ f.ignore = f'.ignore ∧ f.depth = f'.depth ∧ f.numValues = f'.numValues ∧ f.back = f'.back) := by
  cases f; cases f'
  simp [eraseFrame]

theorem erasePM_eq_iff (m m' : PM) : erasePM m = erasePM m' ↔
    (m.frames.map eraseFrame = m'.frames.map eraseFrame ∧ m.srcs.map eraseSrc = m'.srcs.map eraseSrc ∧ m.status = m'.status ∧
      m.diags.map eraseDiag = m'.diags.map eraseDiag ∧ m.trace = m'.trace ∧ m.pendingInclude = m'.pendingInclude ∧ m.maxDepth = m'.maxDepth) := by
  cases m; cases m'
  simp [erasePM]

theorem erasePM_setFrames (m : PM) (fs : List Frame) : erasePM { m with frames := fs } = { erasePM m with frames := fs.map eraseFrame } := rfl

@[simp] theorem eraseFrame_mk (cfg : Cfg) (level : Nat) (state : PState) (opt : Option OptRef) (comment opttitle : Option Bytes)
    (funcargs : List Bytes) (ignore : Ignore) (depth numValues : Nat) (back : Option (OptRef × Nat)) :
    eraseFrame ⟨cfg, level, state, opt, comment, opttitle, funcargs, ignore, depth, numValues, back⟩ =
      ⟨eraseCfg cfg, level, state, opt, none, opttitle, funcargs, ignore, depth, numValues, back⟩ := rfl
@[simp] theorem eraseFrame_opttitle (f : Frame) : (eraseFrame f).opttitle = f.opttitle := rfl
@[simp] theorem eraseFrame_funcargs (f : Frame) : (eraseFrame f).funcargs = f.funcargs := rfl
@[simp] theorem eraseFrame_ignore (f : Frame) : (eraseFrame f).ignore = f.ignore := rfl
@[simp] theorem eraseFrame_depth (f : Frame) : (eraseFrame f).depth = f.depth := rfl
@[simp] theorem eraseFrame_numValues (f : Frame) : (eraseFrame f).numValues = f.numValues := rfl
@[simp] theorem erasePM_erase_frames (m : PM) : (erasePM m).frames = m.frames.map eraseFrame := rfl

@[simp] theorem eraseOpt_flags_nodefault (o : Opt) : (eraseOpt o).flags.nodefault = o.flags.nodefault := by cases o; rfl
@[simp] theorem eraseOpt_flags_definit (o : Opt) : (eraseOpt o).flags.definit = o.flags.definit := by cases o; rfl
@[simp] theorem eraseOpt_flags_ignoreUnknown (o : Opt) : (eraseOpt o).flags.ignoreUnknown = o.flags.ignoreUnknown := by cases o; rfl
@[simp] theorem eraseOpt_flags_modified (o : Opt) : (eraseOpt o).flags.modified = o.flags.modified := by cases o; rfl
@[simp] theorem eraseOpt_flags_comments (o : Opt) : (eraseOpt o).flags.comments = false := by cases o; rfl

@[simp] theorem eraseOpt_setFlags (o : Opt) (F : Flags) :
    eraseOpt (o.setFlags F) = (eraseOpt o).setFlags { F with comments := false } := by
  cases o; simp [eraseOpt, Opt.setFlags, Opt.flags, Opt.info, Opt.subs, Opt.vals, Opt.comment, eraseVals_idem]

@[simp] theorem erasePM_mk (frames : List Frame) (srcs : List Src) (status : Status) (diags : List Diag) (trace : List CbCall)
    (pi : Option Bytes) (md : Nat) :
    erasePM ⟨frames, srcs, status, diags, trace, pi, md⟩ =
      ⟨frames.map eraseFrame, srcs.map eraseSrc, status, diags.map eraseDiag, trace, pi, md⟩ := rfl
@[simp] theorem erasePM_srcs (m : PM) : (erasePM m).srcs = m.srcs.map eraseSrc := rfl
@[simp] theorem erasePM_diags (m : PM) : (erasePM m).diags = m.diags.map eraseDiag := rfl
@[simp] theorem erasePM_pendingInclude (m : PM) : (erasePM m).pendingInclude = m.pendingInclude := rfl
@[simp] theorem erasePM_maxDepth (m : PM) : (erasePM m).maxDepth = m.maxDepth := rfl

@[simp] theorem addCalls_srcs (m : PM) (cs : List CbCall) : (m.addCalls cs).srcs = m.srcs := rfl
@[simp] theorem addCalls_diags (m : PM) (cs : List CbCall) : (m.addCalls cs).diags = m.diags := rfl
@[simp] theorem addCalls_trace (m : PM) (cs : List CbCall) : (m.addCalls cs).trace = cs.reverse ++ m.trace := rfl
@[simp] theorem addCalls_pendingInclude (m : PM) (cs : List CbCall) : (m.addCalls cs).pendingInclude = m.pendingInclude := rfl
@[simp] theorem addCalls_maxDepth (m : PM) (cs : List CbCall) : (m.addCalls cs).maxDepth = m.maxDepth := rfl

macro "nat_simp" : tactic =>
  `(tactic| simp [reject_erase, rejectWith_erase, addDiags_erase, addCalls_erase, erasePM_setFrames])

theorem step_s1_nat (orc : Oracle) (m : PM) (f : Frame) (rest : List Frame) (tok : Tok) :
    erasePM (step_s1 orc m f rest tok) = erasePM (step_s1 orc (erasePM m) (eraseFrame f) (rest.map eraseFrame) tok) := by
  unfold step_s1
  simp only [eraseFrame_opt, eraseFrame_cfg, getOpt_erase]
  cases f.opt with
  | none => nat_simp
  | some r =>
    simp only []
    cases f.cfg.getOpt r with
    | none => nat_simp
    | some o =>
      simp only [Option.map_some, eraseOpt_flags_list]
      cases tok <;> nat_simp
      split <;> nat_simp


theorem storeValue_nat (orc : Oracle) (m : PM) (f : Frame) (rest : List Frame) (v : Bytes) (next : PState) :
    erasePM (storeValue orc m f rest v next) =
      erasePM (storeValue orc (erasePM m) (eraseFrame f) (rest.map eraseFrame) v next) :=
  storeValue_congr orc m (erasePM m) f (eraseFrame f) rest (rest.map eraseFrame) v next (by simp) (by simp) (by simp)

theorem step_s3_nat (orc : Oracle) (m : PM) (f : Frame) (rest : List Frame) (tok : Tok) :
    erasePM (step_s3 orc m f rest tok) = erasePM (step_s3 orc (erasePM m) (eraseFrame f) (rest.map eraseFrame) tok) := by
  unfold step_s3
  cases tok with
  | str v => exact storeValue_nat orc m f rest v _
  | _ => nat_simp

theorem step_s6_nat (orc : Oracle) (m : PM) (f : Frame) (rest : List Frame) (tok : Tok) :
    erasePM (step_s6 orc m f rest tok) = erasePM (step_s6 orc (erasePM m) (eraseFrame f) (rest.map eraseFrame) tok) := by
  unfold step_s6
  cases tok <;> nat_simp

theorem step_s7_nat (orc : Oracle) (m : PM) (f : Frame) (rest : List Frame) (tok : Tok) :
    erasePM (step_s7 orc m f rest tok) = erasePM (step_s7 orc (erasePM m) (eraseFrame f) (rest.map eraseFrame) tok) := by
  unfold step_s7
  cases tok <;> nat_simp

theorem step_s10_nat (orc : Oracle) (m : PM) (f : Frame) (rest : List Frame) (tok : Tok) :
    erasePM (step_s10 orc m f rest tok) = erasePM (step_s10 orc (erasePM m) (eraseFrame f) (rest.map eraseFrame) tok) := by
  unfold step_s10
  cases tok <;> nat_simp

theorem step_s11_nat (orc : Oracle) (m : PM) (f : Frame) (rest : List Frame) (tok : Tok) :
    erasePM (step_s11 orc m f rest tok) = erasePM (step_s11 orc (erasePM m) (eraseFrame f) (rest.map eraseFrame) tok) := by
  unfold step_s11
  cases tok <;> nat_simp

theorem step_s14_nat (orc : Oracle) (m : PM) (f : Frame) (rest : List Frame) (tok : Tok) :
    erasePM (step_s14 orc m f rest tok) = erasePM (step_s14 orc (erasePM m) (eraseFrame f) (rest.map eraseFrame) tok) := by
  unfold step_s14
  cases tok <;> nat_simp

theorem step_s12_nat (orc : Oracle) (m : PM) (f : Frame) (rest : List Frame) (tok : Tok) :
    erasePM (step_s12 orc m f rest tok) = erasePM (step_s12 orc (erasePM m) (eraseFrame f) (rest.map eraseFrame) tok) := by
  unfold step_s12
  cases tok <;> nat_simp
  all_goals (split <;> simp [*, reject_erase, rejectWith_erase, addDiags_erase, addCalls_erase, erasePM_setFrames])

theorem step_s13_nat (orc : Oracle) (m : PM) (f : Frame) (rest : List Frame) (tok : Tok) :
    erasePM (step_s13 orc m f rest tok) = erasePM (step_s13 orc (erasePM m) (eraseFrame f) (rest.map eraseFrame) tok) := by
  unfold step_s13
  cases tok <;> nat_simp
  all_goals (split <;> simp [*, reject_erase, rejectWith_erase, addDiags_erase, addCalls_erase, erasePM_setFrames])


theorem callFunction_nat (orc : Oracle) (m : PM) (f : Frame) (rest : List Frame) :
    erasePM (callFunction orc m f rest) = erasePM (callFunction orc (erasePM m) (eraseFrame f) (rest.map eraseFrame)) := by
  unfold callFunction
  simp only [eraseFrame_opt, eraseFrame_cfg, getOpt_erase, erasePM_k, eraseFrame_funcargs]
  cases f.opt with
  | none => nat_simp
  | some r =>
    simp only []
    cases f.cfg.getOpt r with
    | none => nat_simp
    | some o =>
      simp only [Option.map_some, eraseOpt_info, eraseOpt_name]
      cases o.info.func with
      | none => nat_simp
      | incl => simp only []; split <;> nat_simp
      | user => simp only []; split <;> nat_simp

theorem step_s8_nat (orc : Oracle) (m : PM) (f : Frame) (rest : List Frame) (tok : Tok) :
    erasePM (step_s8 orc m f rest tok) = erasePM (step_s8 orc (erasePM m) (eraseFrame f) (rest.map eraseFrame) tok) := by
  unfold step_s8
  cases tok with
  | rparen => exact callFunction_nat orc m f rest
  | _ => nat_simp

theorem step_s9_nat (orc : Oracle) (m : PM) (f : Frame) (rest : List Frame) (tok : Tok) :
    erasePM (step_s9 orc m f rest tok) = erasePM (step_s9 orc (erasePM m) (eraseFrame f) (rest.map eraseFrame) tok) := by
  unfold step_s9
  cases tok with
  | rparen => exact callFunction_nat orc m f rest
  | _ => nat_simp

theorem step_s4_nat (orc : Oracle) (m : PM) (f : Frame) (rest : List Frame) (tok : Tok) :
    erasePM (step_s4 orc m f rest tok) = erasePM (step_s4 orc (erasePM m) (eraseFrame f) (rest.map eraseFrame) tok) := by
  unfold step_s4
  cases tok with
  | rbrace =>
    simp only [runValid_spec, erasePM_k, validVerdict_erase]
    cases validVerdict orc m.k f with
    | none => simp only [Option.map_none, reject_erase, vetoed_erase]; nat_simp
    | some cs => simp only [Option.map_some]; nat_simp
  | _ => nat_simp

theorem bind_getOpt_erase (f : Frame) :
    (eraseFrame f).opt.bind (eraseFrame f).cfg.getOpt = (f.opt.bind f.cfg.getOpt).map eraseOpt := by
  cases h : f.opt <;> simp [h]

theorem step_s2_nat (orc : Oracle) (m : PM) (f : Frame) (rest : List Frame) (tok : Tok) :
    erasePM (step_s2 orc m f rest tok) = erasePM (step_s2 orc (erasePM m) (eraseFrame f) (rest.map eraseFrame) tok) := by
  unfold step_s2
  simp only [bind_getOpt_erase]
  cases hb : f.opt.bind f.cfg.getOpt with
  | none =>
    simp only [Option.map_none]
    cases tok with
    | str v => exact storeValue_nat orc m f rest v _
    | _ => nat_simp
  | some o =>
    simp only [Option.map_some, eraseOpt_flags_list]
    cases tok with
    | str v => exact storeValue_nat orc m f rest v _
    | rbrace =>
      simp only [eraseFrame_opt, eraseFrame_numValues, eraseOpt_flags_reset, freeValue_erase, eraseFrame_cfg]
      split
      · cases hopt : f.opt with
        | none => nat_simp
        | some r =>
          simp only []
          by_cases h1 : f.numValues = 0 <;> by_cases h2 : o.flags.reset = true <;>
            simp [h1, h2, freeValue_erase, reject_erase, rejectWith_erase, addDiags_erase, addCalls_erase, erasePM_setFrames]
      · nat_simp
    | _ => nat_simp


@[simp] theorem addDiags_srcs (m : PM) (f : Frame) (cs : List DiagCls) : (m.addDiags f cs).srcs = m.srcs := rfl
@[simp] theorem addDiags_trace (m : PM) (f : Frame) (cs : List DiagCls) : (m.addDiags f cs).trace = m.trace := rfl
@[simp] theorem addDiags_pendingInclude (m : PM) (f : Frame) (cs : List DiagCls) : (m.addDiags f cs).pendingInclude = m.pendingInclude := rfl
@[simp] theorem addDiags_maxDepth (m : PM) (f : Frame) (cs : List DiagCls) : (m.addDiags f cs).maxDepth = m.maxDepth := rfl
@[simp] theorem addDiags_diags (m : PM) (f : Frame) (cs : List DiagCls) : (m.addDiags f cs).diags = (cs.map f.diag).reverse ++ m.diags := rfl

theorem eraseCfg_setInfo (s : Cfg) (i : CfgInfo) : eraseCfg (s.setInfo i) = (eraseCfg s).setInfo (eraseInfo i) := by
  cases s; rfl

theorem eraseCfg_setInfo_pos (s : Cfg) (l : Nat) (fn : Option Bytes) :
    eraseCfg (s.setInfo { s.info with line := l, filename := fn }) = eraseCfg s := by
  cases s; rfl

theorem step_s5_nat (orc : Oracle) (m : PM) (f : Frame) (rest : List Frame) (tok : Tok) :
    erasePM (step_s5 orc m f rest tok) = erasePM (step_s5 orc (erasePM m) (eraseFrame f) (rest.map eraseFrame) tok) := by
  unfold step_s5
  cases tok with
  | lbrace =>
    simp only [bind_getOpt_erase, eraseFrame_opt]
    cases hopt : f.opt with
    | none => simp only [Option.bind_none, Option.map_none]; nat_simp
    | some r =>
      simp only [Option.bind_some]
      cases hget : f.cfg.getOpt r with
      | none => simp [hget, reject_erase]
      | some o =>
        simp only [eraseFrame_cfg, getOpt_erase, hget, Option.map_some, erasePM_k, eraseCfg_info, eraseFrame_opttitle]
        have hs := setopt_erase orc m.k f.cfg.info o f.opttitle
        generalize setopt orc m.k f.cfg.info o f.opttitle = out at hs ⊢
        generalize setopt orc m.k (eraseInfo f.cfg.info) (eraseOpt o) f.opttitle = out' at hs ⊢
        obtain ⟨e1, e2, e3, e4⟩ := hs
        rw [e2]
        cases hres : out.res with
        | none =>
          simp only [reject_erase, addDiags_erase, addCalls_erase, e3, e4]
          simp [e1]
        | some i =>
          simp only []
          have hv : (out'.opt.vals[i]?).map eraseVal = (out.opt.vals[i]?).map eraseVal := by
            have := congrArg Opt.vals e1
            simp only [eraseOpt_vals] at this
            rw [← List.getElem?_map, ← List.getElem?_map, this]
          cases h1 : out.opt.vals[i]? with
          | none =>
            cases h2 : out'.opt.vals[i]? with
            | none =>
              simp only [reject_erase, addDiags_erase, addCalls_erase, e3, e4]
              simp [e1]
            | some v2 => simp [h1, h2] at hv
          | some v1 =>
            cases h2 : out'.opt.vals[i]? with
            | none => simp [h1, h2] at hv
            | some v2 =>
              have hvv : eraseVal v2 = eraseVal v1 := by simpa [h1, h2] using hv
              cases v1 with
              | sec s =>
                cases v2 with
                | sec s' =>
                  have hss : eraseCfg s' = eraseCfg s := by simpa [eraseVal] using hvv
                  have hi := eraseCfg_eq_info hss
                  simp only [eraseInfo, CfgInfo.mk.injEq] at hi
                  obtain ⟨hi1, hi2, hi3, _, _, hi6⟩ := hi
                  simp [e1, e3, e4, eraseCfg_setInfo, hss, eraseInfo, hi1, hi2, hi3, hi6, Function.comp_def, Frame.diag, eraseDiag]
                | _ => simp [eraseVal] at hvv
              | _ =>
                cases v2 with
                | sec s' => simp [eraseVal] at hvv
                | _ =>
                  simp only [reject_erase, addDiags_erase, addCalls_erase, e3, e4]
                  simp [e1]
  | _ => nat_simp


@[simp] theorem eraseCfg_setLine (c : Cfg) (n : Nat) : eraseCfg (c.setLine n) = eraseCfg c := by cases c; rfl
@[simp] theorem eraseCfg_afterSection (c s : Cfg) : eraseCfg (c.afterSection s) = eraseCfg c := by cases c; rfl

theorem step_s0_nat (orc : Oracle) (m : PM) (f : Frame) (rest : List Frame) (tok : Tok) :
    erasePM (step_s0 orc m f rest tok) = erasePM (step_s0 orc (erasePM m) (eraseFrame f) (rest.map eraseFrame) tok) := by
  unfold step_s0
  simp only [handleDeprecated_spec, depEffect_erase]
  generalize depEffect f = e
  obtain ⟨ds, ev, f'⟩ := e
  simp only []
  cases tok with
  | rbrace =>
    cases rest with
    | nil => nat_simp
    | cons p rest' =>
      simp only [List.map_cons, eraseFrame_level]
      split
      · nat_simp
      · simp only [runValid_spec]
        have hp2 : eraseFrame { writeBack (eraseFrame p) (eraseFrame f') with cfg := (writeBack (eraseFrame p) (eraseFrame f')).cfg.afterSection (eraseFrame f').cfg } =
            eraseFrame { writeBack p f' with cfg := (writeBack p f').cfg.afterSection f'.cfg } := by
          rw [← writeBack_erase]
          simp [eraseFrame]
        have hk : (((erasePM m).addDiags (eraseFrame f) ds).addCalls ev).k = ((m.addDiags f ds).addCalls ev).k := by
          simp [PM.k]
        have hvv := validVerdict_erase orc ((m.addDiags f ds).addCalls ev).k { writeBack p f' with cfg := (writeBack p f').cfg.afterSection f'.cfg }
        have hvv' := validVerdict_erase orc ((m.addDiags f ds).addCalls ev).k { writeBack (eraseFrame p) (eraseFrame f') with cfg := (writeBack (eraseFrame p) (eraseFrame f')).cfg.afterSection (eraseFrame f').cfg }
        rw [hp2, hvv] at hvv'
        rw [hk, hvv']
        generalize hP : ({ writeBack p f' with cfg := (writeBack p f').cfg.afterSection f'.cfg } : Frame) = p2 at hp2 ⊢
        generalize hP' : ({ writeBack (eraseFrame p) (eraseFrame f') with cfg := (writeBack (eraseFrame p) (eraseFrame f')).cfg.afterSection (eraseFrame f').cfg } : Frame) = p2' at hp2 ⊢
        cases validVerdict orc ((m.addDiags f ds).addCalls ev).k p2' with
        | none =>
          simp only [Option.map_none, reject_erase, vetoed_erase, addCalls_erase, addDiags_erase, erasePM_idem, eraseFrame_idem, hp2, List.map_map, eraseFrame_comp]
        | some cs =>
          simp only [Option.map_some]
          simp [← writeBack_erase, addCalls_erase, addDiags_erase, erasePM_setFrames]
  | comment v =>
    simp only [eraseFrame_cfg, eraseCfg_flags]
    split <;> nat_simp
  | str v =>
    simp only [eraseFrame_cfg, getoptPath_erase, eraseCfg_flags]
    generalize getoptPath f'.cfg v = gp
    cases gp.ref with
    | none =>
      simp only []
      split
      · nat_simp
      · split
        · nat_simp
          simp [setOpts_erase, eraseOpt, eraseVals]
        · split <;> nat_simp
    | some ref =>
      simp only [getOpt_erase]
      cases f'.cfg.getOpt ref with
      | none => nat_simp
      | some o => simp only [Option.map_some, eraseOpt_ty, eraseOpt_flags_title]; nat_simp
  | _ => nat_simp


def errCls (e : LexErr) : DiagCls :=
  match e with
  | .unterminatedString => .unterminatedString | .unterminatedComment => .unterminatedComment
  | .badOctal => .badOctal | .badEscape => .badEscape

theorem pstep_err (orc : Oracle) (m : PM) (f : Frame) (rest : List Frame) (e : LexErr) (nl : Nat)
    (hrun : m.status = .running) (hfr : m.frames = f :: rest) :
    pstep orc m (.err e) nl = ({ m with frames := f.addLine nl :: rest } : PM).rejectWith (f.addLine nl) rest (errCls e) := by
  unfold pstep
  simp only [hrun, hfr]
  cases e <;> rfl

theorem pstep_eof (orc : Oracle) (m : PM) (f : Frame) (rest : List Frame) (nl : Nat)
    (hrun : m.status = .running) (hfr : m.frames = f :: rest) :
    pstep orc m .eof nl =
      (if f.state != .s0 || f.level > 0 then ({ m with frames := f.addLine nl :: rest } : PM).rejectWith (f.addLine nl) rest .prematureEof
       else { (handleDeprecated { m with frames := f.addLine nl :: rest } (f.addLine nl)).1 with
              frames := [(handleDeprecated { m with frames := f.addLine nl :: rest } (f.addLine nl)).2], status := .accepted }) := by
  unfold pstep
  simp only [hrun, hfr]
  rfl

theorem eraseFrame_addLine (f : Frame) (n : Nat) : eraseFrame (f.addLine n) = eraseFrame f := by
  simp [Frame.addLine, eraseFrame]

/-- the inner (non-eof, non-error) tokens -/
theorem pstep_nat_inner (orc : Oracle) (m : PM) (f0 : Frame) (rest : List Frame) (tok : Tok) (nl nl' : Nat)
    (hrun : m.status = .running) (hfr : m.frames = f0 :: rest) (hin : tok.inner = true)
    (hnc : (match tok with | .comment _ => true | _ => false) = false ∨ f0.state = .s0) :
    erasePM (pstep orc m tok nl) = erasePM (pstep orc (erasePM m) tok nl') := by
  rw [pstep_running orc m f0 rest tok nl hrun hfr hin hnc]
  rw [pstep_running orc (erasePM m) (eraseFrame f0) (rest.map eraseFrame) tok nl' hrun (by simp [hfr]) hin hnc]
  have hfg : eraseFrame (f0.addLine nl) = eraseFrame ((eraseFrame f0).addLine nl') := by
    rw [eraseFrame_addLine, eraseFrame_addLine, eraseFrame_idem]
  have hMN : erasePM ({ m with frames := f0.addLine nl :: rest } : PM) =
      erasePM ({ erasePM m with frames := (eraseFrame f0).addLine nl' :: rest.map eraseFrame } : PM) := by
    simp [erasePM, hfg]
  simp only [eraseFrame_state]
  cases f0.state with
    | s0 => simp only []; rw [step_s0_nat orc _ (f0.addLine nl) rest tok, step_s0_nat orc _ ((eraseFrame f0).addLine nl') (rest.map eraseFrame) tok, hMN, hfg, List.map_map, eraseFrame_comp]
    | s1 => simp only []; rw [step_s1_nat orc _ (f0.addLine nl) rest tok, step_s1_nat orc _ ((eraseFrame f0).addLine nl') (rest.map eraseFrame) tok, hMN, hfg, List.map_map, eraseFrame_comp]
    | s2 => simp only []; rw [step_s2_nat orc _ (f0.addLine nl) rest tok, step_s2_nat orc _ ((eraseFrame f0).addLine nl') (rest.map eraseFrame) tok, hMN, hfg, List.map_map, eraseFrame_comp]
    | s3 => simp only []; rw [step_s3_nat orc _ (f0.addLine nl) rest tok, step_s3_nat orc _ ((eraseFrame f0).addLine nl') (rest.map eraseFrame) tok, hMN, hfg, List.map_map, eraseFrame_comp]
    | s4 => simp only []; rw [step_s4_nat orc _ (f0.addLine nl) rest tok, step_s4_nat orc _ ((eraseFrame f0).addLine nl') (rest.map eraseFrame) tok, hMN, hfg, List.map_map, eraseFrame_comp]
    | s5 => simp only []; rw [step_s5_nat orc _ (f0.addLine nl) rest tok, step_s5_nat orc _ ((eraseFrame f0).addLine nl') (rest.map eraseFrame) tok, hMN, hfg, List.map_map, eraseFrame_comp]
    | s6 => simp only []; rw [step_s6_nat orc _ (f0.addLine nl) rest tok, step_s6_nat orc _ ((eraseFrame f0).addLine nl') (rest.map eraseFrame) tok, hMN, hfg, List.map_map, eraseFrame_comp]
    | s7 => simp only []; rw [step_s7_nat orc _ (f0.addLine nl) rest tok, step_s7_nat orc _ ((eraseFrame f0).addLine nl') (rest.map eraseFrame) tok, hMN, hfg, List.map_map, eraseFrame_comp]
    | s8 => simp only []; rw [step_s8_nat orc _ (f0.addLine nl) rest tok, step_s8_nat orc _ ((eraseFrame f0).addLine nl') (rest.map eraseFrame) tok, hMN, hfg, List.map_map, eraseFrame_comp]
    | s9 => simp only []; rw [step_s9_nat orc _ (f0.addLine nl) rest tok, step_s9_nat orc _ ((eraseFrame f0).addLine nl') (rest.map eraseFrame) tok, hMN, hfg, List.map_map, eraseFrame_comp]
    | s10 => simp only []; rw [step_s10_nat orc _ (f0.addLine nl) rest tok, step_s10_nat orc _ ((eraseFrame f0).addLine nl') (rest.map eraseFrame) tok, hMN, hfg, List.map_map, eraseFrame_comp]
    | s11 => simp only []; rw [step_s11_nat orc _ (f0.addLine nl) rest tok, step_s11_nat orc _ ((eraseFrame f0).addLine nl') (rest.map eraseFrame) tok, hMN, hfg, List.map_map, eraseFrame_comp]
    | s12 => simp only []; rw [step_s12_nat orc _ (f0.addLine nl) rest tok, step_s12_nat orc _ ((eraseFrame f0).addLine nl') (rest.map eraseFrame) tok, hMN, hfg, List.map_map, eraseFrame_comp]
    | s13 => simp only []; rw [step_s13_nat orc _ (f0.addLine nl) rest tok, step_s13_nat orc _ ((eraseFrame f0).addLine nl') (rest.map eraseFrame) tok, hMN, hfg, List.map_map, eraseFrame_comp]
    | s14 => simp only []; rw [step_s14_nat orc _ (f0.addLine nl) rest tok, step_s14_nat orc _ ((eraseFrame f0).addLine nl') (rest.map eraseFrame) tok, hMN, hfg, List.map_map, eraseFrame_comp]

/-- **Layout and annotation independence of one step.** Erasing positions (file names, line numbers
at every depth, in the diagnostics and in the saved source positions) and annotations commutes
with a step of the token machine, whatever the line increments of the token are. -/
theorem pstep_nat (orc : Oracle) (m : PM) (tok : Tok) (nl nl' : Nat) :
    erasePM (pstep orc m tok nl) = erasePM (pstep orc (erasePM m) tok nl') := by
  by_cases hrun : m.status = .running
  · cases hfr : m.frames with
    | nil =>
      have h1 : pstep orc m tok nl = m := by unfold pstep; simp [hfr]
      have h2 : pstep orc (erasePM m) tok nl' = erasePM m := by unfold pstep; simp [hfr]
      rw [h1, h2, erasePM_idem]
    | cons f0 rest =>
      have hfr' : (erasePM m).frames = eraseFrame f0 :: rest.map eraseFrame := by simp [hfr]
      have hfg : eraseFrame (f0.addLine nl) = eraseFrame ((eraseFrame f0).addLine nl') := by
        rw [eraseFrame_addLine, eraseFrame_addLine, eraseFrame_idem]
      have hMN : erasePM ({ m with frames := f0.addLine nl :: rest } : PM) =
          erasePM ({ erasePM m with frames := (eraseFrame f0).addLine nl' :: rest.map eraseFrame } : PM) := by
        simp [erasePM, hfg]
      cases tok with
      | err e =>
        rw [pstep_err orc m f0 rest e nl hrun hfr, pstep_err orc (erasePM m) _ _ e nl' hrun hfr']
        simp only [rejectWith_erase, hMN, hfg, List.map_map, eraseFrame_comp]
      | eof =>
        rw [pstep_eof orc m f0 rest nl hrun hfr, pstep_eof orc (erasePM m) _ _ nl' hrun hfr']
        have hc' : ((eraseFrame f0).state != .s0 || decide ((eraseFrame f0).level > 0)) = (f0.state != .s0 || decide (f0.level > 0)) := rfl
        by_cases hc : (f0.state != .s0 || decide (f0.level > 0)) = true
        · rw [if_pos hc, if_pos (hc'.trans hc)]
          simp only [rejectWith_erase, hMN, hfg, List.map_map, eraseFrame_comp]
        · rw [if_neg hc, if_neg (by rw [hc']; exact hc)]
          simp only [handleDeprecated_spec]
          have h1 := depEffect_erase (f0.addLine nl)
          have h2 := depEffect_erase ((eraseFrame f0).addLine nl')
          rw [hfg] at h1
          rw [h1] at h2
          simp only [Prod.mk.injEq] at h2
          obtain ⟨d1, d2, d3⟩ := h2
          simp only [erasePM_setFrames, List.map_cons, List.map_nil, addCalls_erase, addDiags_erase, hMN, hfg, d1, d2, d3]
          simp [d3, hfg, List.map_reverse]
      | comment v =>
        by_cases hs0 : f0.state = .s0
        · exact pstep_nat_inner orc m f0 rest _ nl nl' hrun hfr rfl (Or.inr hs0)
        · rw [pstep_comment_skip orc m f0 rest v nl hrun hfr hs0]
          rw [pstep_comment_skip orc (erasePM m) (eraseFrame f0) (rest.map eraseFrame) v nl' hrun hfr' hs0]
          exact hMN
      | str v => exact pstep_nat_inner orc m f0 rest _ nl nl' hrun hfr rfl (Or.inl rfl)
      | lbrace => exact pstep_nat_inner orc m f0 rest _ nl nl' hrun hfr rfl (Or.inl rfl)
      | rbrace => exact pstep_nat_inner orc m f0 rest _ nl nl' hrun hfr rfl (Or.inl rfl)
      | lparen => exact pstep_nat_inner orc m f0 rest _ nl nl' hrun hfr rfl (Or.inl rfl)
      | rparen => exact pstep_nat_inner orc m f0 rest _ nl nl' hrun hfr rfl (Or.inl rfl)
      | eq => exact pstep_nat_inner orc m f0 rest _ nl nl' hrun hfr rfl (Or.inl rfl)
      | pluseq => exact pstep_nat_inner orc m f0 rest _ nl nl' hrun hfr rfl (Or.inl rfl)
      | comma => exact pstep_nat_inner orc m f0 rest _ nl nl' hrun hfr rfl (Or.inl rfl)
  · rw [pstep_stopped orc m tok nl hrun, pstep_stopped orc (erasePM m) tok nl' (by simpa using hrun), erasePM_idem]


theorem pstep_erase_congr (orc : Oracle) (m m' : PM) (tok : Tok) (nl nl' : Nat) (h : erasePM m = erasePM m') :
    erasePM (pstep orc m tok nl) = erasePM (pstep orc m' tok nl') := by
  rw [pstep_nat orc m tok nl 0, pstep_nat orc m' tok nl' 0, h]

/-- equal erasures in, the same tokens with any line layout: equal erasures out -/
theorem parseToks_erase_congr (orc : Oracle) : ∀ (ts ts' : List LTok) (m m' : PM),
    ts.map (·.1) = ts'.map (·.1) → erasePM m = erasePM m' →
    erasePM (parseToks orc m ts) = erasePM (parseToks orc m' ts')
  | [], [], m, m', _, h => h
  | [], _ :: _, _, _, ht, _ => by simp at ht
  | _ :: _, [], _, _, ht, _ => by simp at ht
  | t :: ts, t' :: ts', m, m', ht, h => by
    simp only [List.map_cons, List.cons.injEq] at ht
    rw [parseToks_cons, parseToks_cons]
    refine parseToks_erase_congr orc ts ts' _ _ ht.2 ?_
    rw [ht.1]
    exact pstep_erase_congr orc m m' t'.1 t.2 t'.2 h

end Confuse
