import Confuse.Lemmas.Lexer
/-!
# The scanner is stable under appending text

If a token is found inside `a`, the same token is found in `a ++ b`, with `b` left over behind the
rest — provided the decision did not hinge on the end of `a` (which it cannot when `a` ends in a
newline) nor on the unbounded look-ahead of `${` (inputs without `$`).  White space at the end of
`a` is skipped into `b`.
-/
namespace Confuse

def LexOut.app (o : LexOut) (b : Bytes) : LexOut := { o with rest := o.rest ++ b }

def Tok.isErr : Tok → Bool
  | .err _ => true
  | _ => false

def Suffix (r a : Bytes) : Prop := ∃ pre, a = pre ++ r

theorem Suffix.refl (a : Bytes) : Suffix a a := ⟨[], rfl⟩
theorem Suffix.cons {r a : Bytes} (c : Nat) (h : Suffix r a) : Suffix r (c :: a) := by
  obtain ⟨pre, rfl⟩ := h; exact ⟨c :: pre, rfl⟩
theorem Suffix.trans {a b c : Bytes} (h1 : Suffix a b) (h2 : Suffix b c) : Suffix a c := by
  obtain ⟨p, rfl⟩ := h1; obtain ⟨q, rfl⟩ := h2; exact ⟨q ++ p, by simp⟩
theorem Suffix.nil (a : Bytes) : Suffix [] a := ⟨a, by simp⟩
theorem Suffix.tail {c : Nat} {cs a : Bytes} (h : Suffix (c :: cs) a) : Suffix cs a := by
  obtain ⟨p, rfl⟩ := h; exact ⟨p ++ [c], by simp⟩
theorem suffix_dropWhile (p : Nat → Bool) (a : Bytes) : Suffix (a.dropWhile p) a :=
  ⟨a.takeWhile p, (List.takeWhile_append_dropWhile (p := p) (l := a)).symm⟩
theorem suffix_drop (n : Nat) (a : Bytes) : Suffix (a.drop n) a :=
  ⟨a.take n, (List.take_append_drop n a).symm⟩

/-! ## single-quoted strings -/

theorem sqRun_app (b : Bytes) : ∀ (a : Bytes) (mode : SqMode) (acc : Bytes) (nl : Nat),
    (sqRun mode acc nl a).tok.isErr = false →
    sqRun mode acc nl (a ++ b) = (sqRun mode acc nl a).app b ∧ Suffix (sqRun mode acc nl a).rest a := by
  intro a
  induction a with
  | nil => intro mode acc nl h; cases mode <;> simp [sqRun, Tok.isErr] at h
  | cons c cs ih =>
    intro mode acc nl h
    cases mode with
    | plain =>
      simp only [sqRun, List.cons_append] at h ⊢
      split
      · rename_i hc; simp only [hc, if_true] at h ⊢; exact ⟨rfl, (Suffix.refl cs).cons _⟩
      · rename_i hc
        simp only [hc, if_false] at h ⊢
        split
        · rename_i h2; simp only [h2, if_true] at h; have := ih _ _ _ h; exact ⟨this.1, this.2.cons _⟩
        · rename_i h2
          simp only [h2, if_false] at h
          split
          · rename_i h3; simp only [h3, if_true] at h; have := ih _ _ _ h; exact ⟨this.1, this.2.cons _⟩
          · rename_i h3; simp only [h3, if_false] at h; have := ih _ _ _ h; exact ⟨this.1, this.2.cons _⟩
    | esc =>
      simp only [sqRun, List.cons_append] at h ⊢
      split
      · rename_i hc; simp only [hc, if_true] at h; have := ih _ _ _ h; exact ⟨this.1, this.2.cons _⟩
      · rename_i hc
        simp only [hc, if_false] at h
        split
        · rename_i h2; simp only [h2, if_true] at h; have := ih _ _ _ h; exact ⟨this.1, this.2.cons _⟩
        · rename_i h2; simp only [h2, if_false] at h; have := ih _ _ _ h; exact ⟨this.1, this.2.cons _⟩

/-! ## double-quoted strings -/

def DqMode.noEnv : DqMode → Bool
  | .envOpen => false
  | .env _ => false
  | _ => true

def sumApp (x : DqSt ⊕ LexOut) (b : Bytes) : DqSt ⊕ LexOut :=
  match x with
  | .inl s => .inl s
  | .inr o => .inr (o.app b)

def sumOk (x : DqSt ⊕ LexOut) (c : Nat) (cs : Bytes) : Prop :=
  match x with
  | .inl s => s.mode.noEnv = true
  | .inr o => Suffix o.rest (c :: cs)

theorem dqPlain_app (acc : Bytes) (nl c : Nat) (cs b : Bytes) (hc : c ≠ c_dollar) :
    dqPlain acc nl c (cs ++ b) = sumApp (dqPlain acc nl c cs) b ∧ sumOk (dqPlain acc nl c cs) c cs := by
  unfold dqPlain
  by_cases h1 : c = c_dq
  · simp only [h1, if_true]; exact ⟨rfl, (Suffix.refl cs).cons _⟩
  · by_cases h2 : c = c_nl
    · simp only [h1, h2, if_true, if_false]; exact ⟨rfl, rfl⟩
    · by_cases h3 : c = c_bs
      · simp [h3, sumApp, sumOk, DqMode.noEnv]
      · simp [h1, h2, h3, hc, sumApp, sumOk, DqMode.noEnv]

theorem dqStep_app (env : Env) (s : DqSt) (c : Nat) (cs b : Bytes) (hc : c ≠ c_dollar) (hm : s.mode.noEnv = true) :
    dqStep env s c (cs ++ b) = sumApp (dqStep env s c cs) b ∧ sumOk (dqStep env s c cs) c cs := by
  unfold dqStep
  cases hmode : s.mode with
  | plain => exact dqPlain_app _ _ _ _ _ hc
  | envOpen => simp [hmode, DqMode.noEnv] at hm
  | env i => simp [hmode, DqMode.noEnv] at hm
  | esc =>
    simp only []
    repeat' split
    all_goals simp [sumApp, sumOk, DqMode.noEnv]
  | hex0 =>
    simp only []
    split
    · simp [sumApp, sumOk, DqMode.noEnv]
    · exact dqPlain_app _ _ _ _ _ hc
  | hex1 v =>
    simp only []
    split
    · simp [sumApp, sumOk, DqMode.noEnv]
    · exact dqPlain_app _ _ _ _ _ hc
  | digits n ao v =>
    simp only []
    split
    · simp [sumApp, sumOk, DqMode.noEnv]
    · split
      · exact dqPlain_app _ _ _ _ _ hc
      · exact ⟨by simp [sumApp, LexOut.app], Suffix.refl _⟩

def NoDollar (a : Bytes) : Prop := ∀ c ∈ a, c ≠ c_dollar

theorem NoDollar.tail {c : Nat} {cs : Bytes} (h : NoDollar (c :: cs)) : NoDollar cs := fun x hx => h x (List.mem_cons_of_mem _ hx)
theorem NoDollar.head {c : Nat} {cs : Bytes} (h : NoDollar (c :: cs)) : c ≠ c_dollar := h c (by simp)
theorem NoDollar.suffix {r a : Bytes} (h : NoDollar a) (hs : Suffix r a) : NoDollar r := by
  obtain ⟨p, rfl⟩ := hs; exact fun x hx => h x (List.mem_append_right _ hx)

theorem dqEof_isErr (s : DqSt) : (dqEof s).tok.isErr = true := by
  unfold dqEof
  repeat' split
  all_goals rfl

theorem dqRun_app (env : Env) (b : Bytes) : ∀ (a : Bytes) (s : DqSt), NoDollar a → s.mode.noEnv = true →
    (dqRun env s a).tok.isErr = false →
    dqRun env s (a ++ b) = (dqRun env s a).app b ∧ Suffix (dqRun env s a).rest a := by
  intro a
  induction a with
  | nil => intro s _ _ h; simp [dqRun, dqEof_isErr] at h
  | cons c cs ih =>
    intro s hnd hm h
    have hst := dqStep_app env s c cs b hnd.head hm
    simp only [dqRun, List.cons_append] at h ⊢
    rw [hst.1]
    cases hd : dqStep env s c cs with
    | inl s' =>
      simp only [hd, sumApp, sumOk] at h hst ⊢
      have := ih s' hnd.tail hst.2 h
      exact ⟨this.1, this.2.cons _⟩
    | inr o =>
      simp only [hd, sumApp, sumOk] at h hst ⊢
      exact ⟨trivial, hst.2⟩

/-! ## C comments -/

def blankStar (x : Bytes) : Bool := x.all (fun c => isBlank c || c == c_star)

theorem dropWhile_app_of_ne_nil {α} (p : α → Bool) (x b : List α) (h : x.dropWhile p ≠ []) :
    (x ++ b).dropWhile p = x.dropWhile p ++ b := by
  induction x with
  | nil => simp at h
  | cons c cs ih =>
    simp only [List.cons_append, List.dropWhile_cons] at h ⊢
    split
    · rename_i hc; simp only [hc, if_true] at h; exact ih h
    · rfl

theorem takeWhile_app_of_ne_nil {α} (p : α → Bool) (x b : List α) (h : x.dropWhile p ≠ []) :
    (x ++ b).takeWhile p = x.takeWhile p := by
  induction x with
  | nil => simp at h
  | cons c cs ih =>
    simp only [List.cons_append, List.takeWhile_cons, List.dropWhile_cons] at h ⊢
    split
    · rename_i hc; simp only [hc, if_true] at h; rw [ih h]
    · rfl

/-- a terminator found in `x` is found in `x ++ b` -/
theorem commentEnd_app_some (x b r : Bytes) (h : commentEnd x = some r) : commentEnd (x ++ b) = some (r ++ b) ∧ Suffix r x := by
  unfold commentEnd at h ⊢
  simp only [] at h ⊢
  have hs1 := suffix_dropWhile isBlank x
  cases h1 : x.dropWhile isBlank with
  | nil => simp [h1] at h
  | cons c r1 =>
    have e1 : (x ++ b).dropWhile isBlank = c :: r1 ++ b := by
      rw [dropWhile_app_of_ne_nil _ _ _ (by simp [h1]), h1]
    rw [h1] at hs1
    simp only [h1] at h
    simp only [e1, List.cons_append]
    by_cases hc : c = c_star
    · simp only [hc, if_true] at h ⊢
      have hs2 := suffix_dropWhile (· == c_star) (c_star :: r1)
      cases h2 : List.dropWhile (fun x => x == c_star) (c_star :: r1) with
      | nil => simp [h2] at h
      | cons d ds =>
        have e2 : List.dropWhile (fun x => x == c_star) (c_star :: (r1 ++ b)) = d :: ds ++ b := by
          have := dropWhile_app_of_ne_nil (fun x => x == c_star) (c_star :: r1) b (by simp [h2])
          simpa [h2] using this
        rw [h2] at hs2
        simp only [h2] at h
        simp only [e2, List.cons_append]
        by_cases hd : d = c_slash
        · simp only [hd, if_true, Option.some.injEq] at h ⊢
          subst h
          subst hc
          exact ⟨rfl, (hs2.tail).trans hs1⟩
        · simp [hd] at h
    · simp [hc] at h

theorem mem_of_suffix_cons {d : Nat} {ds x : Bytes} (h : Suffix (d :: ds) x) : d ∈ x := by
  obtain ⟨p, rfl⟩ := h; simp

theorem commentEnd_some_slash (x r : Bytes) (h : commentEnd x = some r) : c_slash ∈ x := by
  unfold commentEnd at h
  simp only [] at h
  have hs1 := suffix_dropWhile isBlank x
  cases h1 : x.dropWhile isBlank with
  | nil => simp [h1] at h
  | cons c r1 =>
    rw [h1] at hs1
    simp only [h1] at h
    by_cases hc : c = c_star
    · simp only [hc, if_true] at h
      have hs2 := suffix_dropWhile (· == c_star) (c_star :: r1)
      cases h2 : List.dropWhile (fun x => x == c_star) (c_star :: r1) with
      | nil => simp [h2] at h
      | cons d ds =>
        rw [h2] at hs2
        simp only [h2] at h
        by_cases hd : d = c_slash
        · subst hd; subst hc; exact mem_of_suffix_cons (hs2.trans hs1)
        · simp [hd] at h
    · simp [hc] at h

theorem commentRun_ok_slash : ∀ (x acc : Bytes) (nl : Nat), (commentRun acc nl x).tok.isErr = false → c_slash ∈ x := by
  intro x
  induction x with
  | nil => intro acc nl h; simp [commentRun, Tok.isErr] at h
  | cons c cs ih =>
    intro acc nl h
    simp only [commentRun] at h
    cases he : commentEnd (c :: cs) with
    | some r => exact commentEnd_some_slash _ _ he
    | none =>
      simp only [he] at h
      split at h <;> exact List.mem_cons_of_mem _ (ih _ _ h)

theorem mem_takeWhile_p {α} (p : α → Bool) : ∀ (x : List α) (c : α), c ∈ x.takeWhile p → p c = true := by
  intro x
  induction x with
  | nil => simp
  | cons a as ih =>
    intro c hc
    simp only [List.takeWhile_cons] at hc
    split at hc
    · rename_i ha
      rcases List.mem_cons.1 hc with rfl | hc
      · exact ha
      · exact ih c hc
    · simp at hc

theorem dropWhile_nil_all {α} (p : α → Bool) (x : List α) (h : x.dropWhile p = []) : ∀ c ∈ x, p c = true := by
  induction x with
  | nil => simp
  | cons c cs ih =>
    simp only [List.dropWhile_cons] at h
    split at h
    · rename_i hc
      intro d hd
      rcases List.mem_cons.1 hd with rfl | hd
      · exact hc
      · exact ih h d hd
    · simp at h

/-- no terminator at the head of `x`, but a slash somewhere in it: none at the head of `x ++ b` either -/
theorem commentEnd_app_none (x b : Bytes) (h : commentEnd x = none) (hs : c_slash ∈ x) : commentEnd (x ++ b) = none := by
  unfold commentEnd at h ⊢
  simp only [] at h ⊢
  cases h1 : x.dropWhile isBlank with
  | nil =>
    exfalso
    have := dropWhile_nil_all _ _ h1 _ hs
    simp [isBlank] at this
  | cons c r1 =>
    have e1 : (x ++ b).dropWhile isBlank = c :: r1 ++ b := by
      rw [dropWhile_app_of_ne_nil _ _ _ (by simp [h1]), h1]
    have hx : x = x.takeWhile isBlank ++ c :: r1 := by rw [← h1]; exact (List.takeWhile_append_dropWhile).symm
    simp only [h1] at h
    simp only [e1, List.cons_append]
    by_cases hc : c = c_star
    · simp only [hc, if_true] at h ⊢
      cases h2 : List.dropWhile (fun x => x == c_star) (c_star :: r1) with
      | nil =>
        exfalso
        -- everything after the blanks is stars: no slash in x
        have hall := dropWhile_nil_all _ _ h2
        rw [hx] at hs
        rcases List.mem_append.1 hs with hs | hs
        · have := mem_takeWhile_p _ _ _ hs; simp [isBlank] at this
        · subst hc; have := hall _ hs; simp at this
      | cons d ds =>
        have e2 : List.dropWhile (fun x => x == c_star) (c_star :: (r1 ++ b)) = d :: ds ++ b := by
          have := dropWhile_app_of_ne_nil (fun x => x == c_star) (c_star :: r1) b (by simp [h2])
          simpa [h2] using this
        simp only [h2] at h
        simp only [e2, List.cons_append]
        by_cases hd : d = c_slash
        · simp [hd] at h
        · simp [hd]
    · simp [hc]

theorem commentRun_app (b : Bytes) : ∀ (a acc : Bytes) (nl : Nat), (commentRun acc nl a).tok.isErr = false →
    commentRun acc nl (a ++ b) = (commentRun acc nl a).app b ∧ Suffix (commentRun acc nl a).rest a := by
  intro a
  induction a with
  | nil => intro acc nl h; simp [commentRun, Tok.isErr] at h
  | cons c cs ih =>
    intro acc nl h
    have hsl := commentRun_ok_slash _ _ _ h
    simp only [commentRun, List.cons_append] at h ⊢
    cases he : commentEnd (c :: cs) with
    | some r =>
      have := commentEnd_app_some (c :: cs) b r he
      simp only [List.cons_append] at this
      simp only [this.1]
      exact ⟨rfl, this.2⟩
    | none =>
      have := commentEnd_app_none (c :: cs) b he hsl
      simp only [List.cons_append] at this
      simp only [this, he] at h ⊢
      split
      · rename_i hc; simp only [hc, if_true] at h; have := ih _ _ h; exact ⟨this.1, this.2.cons _⟩
      · rename_i hc; simp only [hc, if_false] at h; have := ih _ _ h; exact ⟨this.1, this.2.cons _⟩

/-! ## INITIAL -/

def EndsNl (a : Bytes) : Prop := ∀ x, a.getLast? = some x → x = c_nl

theorem EndsNl.tail {c : Nat} {cs : Bytes} (h : EndsNl (c :: cs)) : EndsNl cs := by
  intro x hx
  cases cs with
  | nil => simp at hx
  | cons d ds => exact h x (by simpa [List.getLast?_cons_cons] using hx)

theorem EndsNl.single {c : Nat} (h : EndsNl [c]) : c = c_nl := h c (by simp)

theorem EndsNl.suffix {r a : Bytes} (h : EndsNl a) (hs : Suffix r a) : EndsNl r := by
  obtain ⟨p, rfl⟩ := hs
  induction p with
  | nil => exact h
  | cons q qs ih => exact ih (EndsNl.tail h)

theorem dropWhile_ne_nil_of_last (p : Nat → Bool) (hp : p c_nl = false) : ∀ (a : Bytes), a ≠ [] → EndsNl a → a.dropWhile p ≠ [] := by
  intro a
  induction a with
  | nil => intro h; exact absurd rfl h
  | cons c cs ih =>
    intro _ he
    simp only [List.dropWhile_cons]
    split
    · rename_i hc
      cases cs with
      | nil => have := he.single; subst this; simp [hp] at hc
      | cons d ds => exact ih (by simp) he.tail
    · simp

theorem dqRun_not_eof (env : Env) : ∀ (a : Bytes) (s : DqSt), (dqRun env s a).tok ≠ .eof := by
  intro a
  induction a with
  | nil => intro s; simp only [dqRun, dqEof]; repeat' split <;> simp
  | cons c cs ih =>
    intro s
    simp only [dqRun]
    cases hd : dqStep env s c cs with
    | inl s' => exact ih s'
    | inr o =>
      simp only []
      unfold dqStep dqPlain at hd
      repeat' split at hd
      all_goals first
        | (simp at hd; done)
        | (simp only [Sum.inr.injEq] at hd; subst hd; simp)

theorem sqRun_not_eof : ∀ (a : Bytes) (mode : SqMode) (acc : Bytes) (nl : Nat), (sqRun mode acc nl a).tok ≠ .eof := by
  intro a
  induction a with
  | nil => intro mode acc nl; cases mode <;> simp [sqRun]
  | cons c cs ih =>
    intro mode acc nl
    cases mode <;> simp only [sqRun] <;> repeat' split
    all_goals first | exact ih _ _ _ | simp

theorem commentRun_not_eof : ∀ (a acc : Bytes) (nl : Nat), (commentRun acc nl a).tok ≠ .eof := by
  intro a
  induction a with
  | nil => intro acc nl; simp [commentRun]
  | cons c cs ih =>
    intro acc nl
    simp only [commentRun]
    repeat' split
    all_goals first | exact ih _ _ | simp

def SpliceOK (env : Env) (b a : Bytes) (nl : Nat) : Prop :=
  ((lexInitial env nl a).tok = .eof → lexInitial env nl (a ++ b) = lexInitial env (lexInitial env nl a).nl b) ∧
  ((lexInitial env nl a).tok ≠ .eof → (lexInitial env nl a).tok.isErr = false →
      lexInitial env nl (a ++ b) = (lexInitial env nl a).app b ∧ Suffix (lexInitial env nl a).rest a)

theorem spliceOK_rec (env : Env) (b : Bytes) (c : Nat) (cs : Bytes) (nl nl' : Nat)
    (h1 : lexInitial env nl (c :: cs) = lexInitial env nl' cs)
    (h2 : lexInitial env nl (c :: (cs ++ b)) = lexInitial env nl' (cs ++ b))
    (ih : SpliceOK env b cs nl') : SpliceOK env b (c :: cs) nl := by
  unfold SpliceOK at ih ⊢
  simp only [List.cons_append, h1, h2]
  exact ⟨ih.1, fun a b => ⟨(ih.2 a b).1, (ih.2 a b).2.cons _⟩⟩

theorem spliceOK_term (env : Env) (b a : Bytes) (nl : Nat) (o : LexOut) (h1 : lexInitial env nl a = o) (hne : o.tok ≠ .eof)
    (h2 : o.tok.isErr = false → lexInitial env nl (a ++ b) = o.app b ∧ Suffix o.rest a) : SpliceOK env b a nl := by
  unfold SpliceOK
  rw [h1]
  exact ⟨fun h => absurd h hne, fun _ he => h2 he⟩

theorem lineComment_app (marker nl : Nat) (a b : Bytes) (hne : a ≠ []) (he : EndsNl a) :
    lineComment marker nl (a ++ b) = (lineComment marker nl a).app b ∧ Suffix (lineComment marker nl a).rest a := by
  have hd := dropWhile_ne_nil_of_last (· != c_nl) (by decide) a hne he
  unfold lineComment LexOut.app
  simp only [takeWhile_app_of_ne_nil _ _ _ hd, dropWhile_app_of_ne_nil _ _ _ hd]
  exact ⟨trivial, suffix_dropWhile _ _⟩

theorem lexWord_app (nl : Nat) (a b : Bytes) (hne : a ≠ []) (he : EndsNl a) :
    lexWord nl (a ++ b) = (lexWord nl a).app b ∧ Suffix (lexWord nl a).rest a := by
  have hd := dropWhile_ne_nil_of_last isWordByte (by decide) a hne he
  unfold lexWord LexOut.app
  simp only [takeWhile_app_of_ne_nil _ _ _ hd, dropWhile_app_of_ne_nil _ _ _ hd]
  exact ⟨trivial, suffix_dropWhile _ _⟩

theorem lexInitial_nil_app (env : Env) (b : Bytes) (nl : Nat) : SpliceOK env b [] nl := by
  unfold SpliceOK
  simp [lexInitial]

/-- **Splice.** -/
theorem lexInitial_app (env : Env) (b : Bytes) : ∀ (a : Bytes) (nl : Nat), NoDollar a → EndsNl a → SpliceOK env b a nl := by
  intro a
  induction a with
  | nil => intro nl _ _; exact lexInitial_nil_app env b nl
  | cons c cs ih =>
    intro nl hnd he
    have hcd : c ≠ c_dollar := hnd.head
    have ihc := fun nl' => ih nl' hnd.tail he.tail
    by_cases h1 : c = c_sp ∨ c = c_tab
    · exact spliceOK_rec env b c cs nl nl (by rcases h1 with rfl | rfl <;> simp [lexInitial]) (by rcases h1 with rfl | rfl <;> simp [lexInitial]) (ihc nl)
    · have h1a : c ≠ c_sp := fun h => h1 (Or.inl h)
      have h1b : c ≠ c_tab := fun h => h1 (Or.inr h)
      by_cases h2 : c = c_nl
      · subst h2
        exact spliceOK_rec env b _ cs nl (nl + 1) (by simp [lexInitial]) (by simp [lexInitial]) (ihc (nl + 1))
      · by_cases h3 : c = c_hash
        · subst h3
          refine spliceOK_term env b _ nl (lineComment c_hash nl (c_hash :: cs)) (by simp [lexInitial]) (by simp [lineComment]) (fun _ => ?_)
          have := lineComment_app c_hash nl (c_hash :: cs) b (by simp) he
          simpa [lexInitial] using this
        · by_cases h4 : c = c_slash
          · subst h4
            cases cs with
            | nil => exact absurd he.single (by decide)
            | cons d ds =>
              by_cases hd1 : d = c_slash
              · subst hd1
                refine spliceOK_term env b _ nl (lineComment c_slash nl (c_slash :: c_slash :: ds)) (by simp [lexInitial]) (by simp [lineComment]) (fun _ => ?_)
                have := lineComment_app c_slash nl (c_slash :: c_slash :: ds) b (by simp) he
                simpa [lexInitial] using this
              · by_cases hd2 : d = c_star
                · subst hd2
                  refine spliceOK_term env b _ nl (commentRun [] nl ds) (by simp [lexInitial]) (commentRun_not_eof _ _ _) (fun herr => ?_)
                  have := commentRun_app b ds [] nl herr
                  refine ⟨by simpa [lexInitial] using this.1, (this.2.cons _).cons _⟩
                · refine spliceOK_term env b _ nl (lexWord nl (c_slash :: d :: ds)) (by simp [lexInitial, hd1, hd2]) (by simp [lexWord]) (fun _ => ?_)
                  have := lexWord_app nl (c_slash :: d :: ds) b (by simp) he
                  simpa [lexInitial, hd1, hd2] using this
          · by_cases h5 : c = c_lbr
            · subst h5; exact spliceOK_term env b _ nl ⟨.lbrace, nl, cs⟩ (by simp [lexInitial]) (by simp) (fun _ => ⟨by simp [lexInitial, LexOut.app], (Suffix.refl cs).cons _⟩)
            · by_cases h6 : c = c_rbr
              · subst h6; exact spliceOK_term env b _ nl ⟨.rbrace, nl, cs⟩ (by simp [lexInitial]) (by simp) (fun _ => ⟨by simp [lexInitial, LexOut.app], (Suffix.refl cs).cons _⟩)
              · by_cases h7 : c = c_lp
                · subst h7; exact spliceOK_term env b _ nl ⟨.lparen, nl, cs⟩ (by simp [lexInitial]) (by simp) (fun _ => ⟨by simp [lexInitial, LexOut.app], (Suffix.refl cs).cons _⟩)
                · by_cases h8 : c = c_rp
                  · subst h8; exact spliceOK_term env b _ nl ⟨.rparen, nl, cs⟩ (by simp [lexInitial]) (by simp) (fun _ => ⟨by simp [lexInitial, LexOut.app], (Suffix.refl cs).cons _⟩)
                  · by_cases h9 : c = c_eq
                    · subst h9; exact spliceOK_term env b _ nl ⟨.eq, nl, cs⟩ (by simp [lexInitial]) (by simp) (fun _ => ⟨by simp [lexInitial, LexOut.app], (Suffix.refl cs).cons _⟩)
                    · by_cases h10 : c = c_comma
                      · subst h10; exact spliceOK_term env b _ nl ⟨.comma, nl, cs⟩ (by simp [lexInitial]) (by simp) (fun _ => ⟨by simp [lexInitial, LexOut.app], (Suffix.refl cs).cons _⟩)
                      · by_cases h11 : c = c_plus
                        · subst h11
                          cases cs with
                          | nil => exact absurd he.single (by decide)
                          | cons d ds =>
                            by_cases hd : d = c_eq
                            · subst hd
                              exact spliceOK_term env b _ nl ⟨.pluseq, nl, ds⟩ (by simp [lexInitial]) (by simp)
                                (fun _ => ⟨by simp [lexInitial, LexOut.app], ((Suffix.refl ds).cons _).cons _⟩)
                            · exact spliceOK_rec env b _ (d :: ds) nl nl (by simp [lexInitial, hd]) (by simp [lexInitial, hd]) (ihc nl)
                        · by_cases h12 : c = c_dq
                          · subst h12
                            refine spliceOK_term env b _ nl (dqRun env ⟨.plain, [], nl⟩ cs) (by simp [lexInitial]) (dqRun_not_eof _ _ _) (fun herr => ?_)
                            have := dqRun_app env b cs ⟨.plain, [], nl⟩ hnd.tail rfl herr
                            exact ⟨by simpa [lexInitial] using this.1, this.2.cons _⟩
                          · by_cases h13 : c = c_sq
                            · subst h13
                              refine spliceOK_term env b _ nl (sqRun .plain [] nl cs) (by simp [lexInitial]) (sqRun_not_eof _ _ _ _) (fun herr => ?_)
                              have := sqRun_app b cs .plain [] nl herr
                              exact ⟨by simpa [lexInitial] using this.1, this.2.cons _⟩
                            · by_cases h14 : isWordByte c = true
                              · refine spliceOK_term env b _ nl (lexWord nl (c :: cs))
                                  (by simp [lexInitial, h1a, h1b, h2, h3, h4, h5, h6, h7, h8, h9, h10, h11, h12, h13, hcd, h14]) (by simp [lexWord]) (fun _ => ?_)
                                have := lexWord_app nl (c :: cs) b (by simp) he
                                simpa [lexInitial, h1a, h1b, h2, h3, h4, h5, h6, h7, h8, h9, h10, h11, h12, h13, hcd, h14] using this
                              · exact spliceOK_rec env b c cs nl nl
                                  (by simp [lexInitial, h1a, h1b, h2, h3, h4, h5, h6, h7, h8, h9, h10, h11, h12, h13, hcd, h14])
                                  (by simp [lexInitial, h1a, h1b, h2, h3, h4, h5, h6, h7, h8, h9, h10, h11, h12, h13, hcd, h14]) (ihc nl)

end Confuse
