import Confuse.Lemmas.Resolve
/-!
# Every rejecting step reports

`rep m` counts what the application has been told so far (diagnostics delivered to the error function
plus callback invocations).  A step that turns a running machine into a rejected one strictly
increases it — with one exemption that is a property of the schema, not of the input: a function
option declared without a function.
-/
namespace Confuse

def rep (m : PM) : Nat := m.diags.length + m.trace.length

/-- the frame's current option is a function option without code behind it -/
def NoCode (f : Frame) : Prop := ∃ r o, f.opt = some r ∧ f.cfg.getOpt r = some o ∧ o.ty = .func ∧ o.info.func = .none

structure Good (m : PM) (f : Frame) (m' : PM) : Prop where
  rej : m'.status = .rejected → rep m < rep m' ∨ NoCode f
  run : m'.status = .running → ∀ g ∈ m'.frames.head?, OptInv g

@[simp] theorem rep_addDiags (m : PM) (f : Frame) (cs : List DiagCls) : rep (m.addDiags f cs) = rep m + cs.length := by
  simp [rep, PM.addDiags]; omega
@[simp] theorem rep_addCalls (m : PM) (cs : List CbCall) : rep (m.addCalls cs) = rep m + cs.length := by
  simp [rep, PM.addCalls]; omega
@[simp] theorem rep_reject (m : PM) (f : Frame) (rest : List Frame) : rep (m.reject f rest) = rep m := by
  simp [rep, PM.reject, collapse]
@[simp] theorem status_reject (m : PM) (f : Frame) (rest : List Frame) : (m.reject f rest).status = .rejected := by
  simp [PM.reject, collapse]
@[simp] theorem status_addDiags (m : PM) (f : Frame) (cs : List DiagCls) : (m.addDiags f cs).status = m.status := rfl
@[simp] theorem status_addCalls (m : PM) (cs : List CbCall) : (m.addCalls cs).status = m.status := rfl

theorem good_reject (m m0 : PM) (f g : Frame) (rest : List Frame) (h : rep m < rep m0 ∨ NoCode f) : Good m f (m0.reject g rest) :=
  ⟨fun _ => by simpa using h, fun hr => by simp at hr⟩

theorem good_rejectWith (m m0 : PM) (f g : Frame) (rest : List Frame) (cls : DiagCls) (h : rep m ≤ rep m0) :
    Good m f (m0.rejectWith g rest cls) :=
  ⟨fun _ => by left; simp [PM.rejectWith]; omega, fun hr => by simp [PM.rejectWith] at hr⟩

theorem good_run (m : PM) (f : Frame) (m' : PM) (g : Frame) (rest : List Frame) (hs : m'.status = .running) (hf : m'.frames = g :: rest) (hg : OptInv g) :
    Good m f m' :=
  ⟨fun hr => by rw [hs] at hr; exact absurd hr (by decide), fun _ g' hg' => by simp [hf] at hg'; subst hg'; exact hg⟩

theorem optInv_free (g : Frame) (h : g.state = .s0 ∨ g.state = .s10 ∨ g.state = .s11 ∨ g.state = .s12 ∨ g.state = .s13 ∨ g.state = .s14) : OptInv g := by
  unfold OptInv
  rcases h with h | h | h | h | h | h <;> simp [h]

theorem length_pos' {α} {l : List α} (h : l ≠ []) : 0 < l.length := by
  cases l with
  | nil => exact absurd rfl h
  | cons a b => simp

theorem valueKind_of_info {o o' : Opt} (h : o'.info = o.info) (hk : valueKind o) : valueKind o' := by
  unfold valueKind Opt.ty at *
  rw [h]; exact hk

theorem vetoed_rep (orc : Oracle) (m : PM) (k : Nat) (f : Frame) (h : validVerdict orc k f = none) : rep (vetoed orc m f) = rep m + 2 := by
  unfold validVerdict at h
  unfold vetoed
  cases hopt : f.opt with
  | none => simp [hopt] at h
  | some r =>
    simp only [hopt] at h
    cases hget : f.cfg.getOpt r with
    | none => simp [hget] at h
    | some o => simp only [hopt, hget]; simp

theorem inheritComment_opt (f : Frame) : (inheritComment f).opt = f.opt := by
  unfold inheritComment
  repeat' split
  all_goals rfl

theorem inheritComment_getOpt (f : Frame) (r : OptRef) (o : Opt) (hopt : f.opt = some r) (hget : f.cfg.getOpt r = some o) :
    ∃ o', (inheritComment f).cfg.getOpt r = some o' ∧ o'.info = o.info := by
  unfold inheritComment
  cases hc : f.comment with
  | none => exact ⟨o, by simpa using hget, rfl⟩
  | some c =>
    simp only [hopt, hget]
    exact ⟨_, getOpt_setOpt _ _ o _ hget, rfl⟩

theorem storeValue_good (orc : Oracle) (m : PM) (f : Frame) (rest : List Frame) (v : Bytes) (next : PState) (hs : m.status = .running)
    (hinv : ∃ r o, f.opt = some r ∧ f.cfg.getOpt r = some o ∧ valueKind o) (hnext : next = .s0 ∨ next = .s4) :
    Good m f (storeValue orc m f rest v next) := by
  obtain ⟨r, o, hopt, hget, hk⟩ := hinv
  unfold storeValue
  simp only [hopt, hget]
  have h1 := setopt_value_reported orc m.k f.cfg.info o v hk
  have h2 := (setopt_sameDecl orc m.k f.cfg.info o (some v)).1
  generalize setopt orc m.k f.cfg.info o (some v) = out at h1 h2 ⊢
  cases hres : out.res with
  | none =>
    refine good_reject _ _ _ _ _ (Or.inl ?_)
    rcases h1 hres with h | h
    · have := length_pos' h; simp; omega
    · have := length_pos' h; simp; omega
  | some i =>
    simp only [runValid_spec]
    have hg1 : (f.cfg.setOpt r out.opt).getOpt r = some out.opt := getOpt_setOpt _ _ o _ hget
    generalize hf1 : ({ f with cfg := f.cfg.setOpt r out.opt, opt := some r } : Frame) = f1
    have hf1o : f1.opt = some r := by subst hf1; rfl
    have hf1g : f1.cfg.getOpt r = some out.opt := by subst hf1; exact hg1
    cases hv : validVerdict orc ((m.addCalls out.calls).addDiags f1 out.diags).k f1 with
    | none =>
      simp only [Option.map_none]
      refine good_reject _ _ _ _ _ (Or.inl ?_)
      rw [vetoed_rep orc _ _ f1 hv]; simp; omega
    | some cs =>
      simp only [Option.map_some]
      refine good_run _ _ _ _ rest (by simp [hs]) rfl ?_
      rcases hnext with rfl | rfl
      · exact optInv_free _ (Or.inl rfl)
      · obtain ⟨o', ho', hi'⟩ := inheritComment_getOpt f1 r out.opt hf1o hf1g
        unfold OptInv
        simp only []
        exact ⟨r, o', by simp [inheritComment_opt, hf1o], ho', valueKind_of_info (hi'.trans h2) hk⟩

theorem callFunction_good (orc : Oracle) (m : PM) (f : Frame) (rest : List Frame) (hs : m.status = .running)
    (hinv : ∃ r o, f.opt = some r ∧ f.cfg.getOpt r = some o ∧ o.ty = .func) :
    Good m f (callFunction orc m f rest) := by
  obtain ⟨r, o, hopt, hget, hk⟩ := hinv
  unfold callFunction
  simp only [hopt, hget]
  cases hfn : o.info.func with
  | incl =>
    simp only []
    split
    · exact good_run _ _ _ _ rest hs rfl (optInv_free _ (Or.inl rfl))
    · exact good_rejectWith _ _ _ _ _ _ (Nat.le_refl _)
  | user =>
    simp only []
    split
    · refine good_reject _ _ _ _ _ (Or.inl ?_); simp; omega
    · exact good_run _ _ _ _ rest (by simp [hs]) rfl (optInv_free _ (Or.inl rfl))
  | none => exact good_reject _ _ _ _ _ (Or.inr ⟨r, o, hopt, hget, hk, hfn⟩)

/-! ### the invariant, state by state -/

theorem optInv_val {g : Frame} (hst : g.state = .s1 ∨ g.state = .s2 ∨ g.state = .s3 ∨ g.state = .s4) :
    OptInv g ↔ ∃ r o, g.opt = some r ∧ g.cfg.getOpt r = some o ∧ valueKind o := by
  unfold OptInv; rcases hst with h | h | h | h <;> simp only [h]

theorem optInv_func {g : Frame} (hst : g.state = .s7 ∨ g.state = .s8 ∨ g.state = .s9) :
    OptInv g ↔ ∃ r o, g.opt = some r ∧ g.cfg.getOpt r = some o ∧ o.ty = .func := by
  unfold OptInv; rcases hst with h | h | h <;> simp only [h]

theorem optInv_s5 {g : Frame} (hst : g.state = .s5) :
    OptInv g ↔ ∃ r o, g.opt = some r ∧ g.cfg.getOpt r = some o ∧ o.ty = .sec ∧ (o.flags.title = true → g.opttitle.isSome) := by
  unfold OptInv; simp only [hst]

theorem optInv_s6 {g : Frame} (hst : g.state = .s6) :
    OptInv g ↔ ∃ r o, g.opt = some r ∧ g.cfg.getOpt r = some o ∧ o.ty = .sec := by
  unfold OptInv; simp only [hst]

macro "good_auto" hs:ident : tactic =>
  `(tactic| first
      | exact good_rejectWith _ _ _ _ _ _ (Nat.le_refl _)
      | exact good_run _ _ _ _ _ $hs rfl (optInv_free _ (Or.inl rfl))
      | exact good_run _ _ _ _ _ $hs rfl (optInv_free _ (by simp)))

theorem step_s1_good (orc : Oracle) (m : PM) (f : Frame) (rest : List Frame) (tok : Tok) (hs : m.status = .running)
    (hst : f.state = .s1) (hinv : OptInv f) : Good m f (step_s1 orc m f rest tok) := by
  obtain ⟨r, o, hopt, hget, hk⟩ := (optInv_val (Or.inl hst)).1 hinv
  unfold step_s1
  simp only [hopt, hget]
  have go : ∀ (g : Frame), g.opt = some r → (∃ o', g.cfg.getOpt r = some o' ∧ o'.info = o.info) → g.state = (if o.flags.list then PState.s3 else PState.s2) →
      Good m f { m with frames := g :: rest } := by
    intro g h1 h2 h3
    obtain ⟨o', h2, h2'⟩ := h2
    refine good_run _ _ _ _ rest hs rfl ((optInv_val ?_).2 ⟨r, o', h1, h2, valueKind_of_info h2' hk⟩)
    rw [h3]
    by_cases hl : o.flags.list = true <;> simp [hl]
  cases tok with
  | pluseq =>
    simp only []; split
    · good_auto hs
    · exact go _ rfl ⟨_, getOpt_setOpt _ _ o _ hget, by cases o; rfl⟩ rfl
  | eq => exact go _ rfl ⟨_, getOpt_setOpt _ _ o _ hget, by cases o; rfl⟩ rfl
  | _ => good_auto hs

theorem step_s2_good (orc : Oracle) (m : PM) (f : Frame) (rest : List Frame) (tok : Tok) (hs : m.status = .running)
    (hst : f.state = .s2) (hinv : OptInv f) : Good m f (step_s2 orc m f rest tok) := by
  have hv := (optInv_val (Or.inr (Or.inl hst))).1 hinv
  unfold step_s2
  cases tok with
  | str v => exact storeValue_good orc m f rest v _ hs hv (by split <;> simp)
  | rbrace =>
    simp only []
    repeat' split
    all_goals first | good_auto hs | exact good_run _ _ _ _ _ (by simp [hs]) rfl (optInv_free _ (Or.inl rfl))
  | _ => good_auto hs

theorem step_s3_good (orc : Oracle) (m : PM) (f : Frame) (rest : List Frame) (tok : Tok) (hs : m.status = .running)
    (hst : f.state = .s3) (hinv : OptInv f) : Good m f (step_s3 orc m f rest tok) := by
  have hv := (optInv_val (Or.inr (Or.inr (Or.inl hst)))).1 hinv
  unfold step_s3
  cases tok with
  | str v => exact storeValue_good orc m f rest v _ hs hv (Or.inl rfl)
  | lbrace => exact good_run _ _ _ _ rest hs rfl ((optInv_val (Or.inr (Or.inl rfl))).2 hv)
  | _ => good_auto hs

theorem step_s4_good (orc : Oracle) (m : PM) (f : Frame) (rest : List Frame) (tok : Tok) (hs : m.status = .running)
    (hst : f.state = .s4) (hinv : OptInv f) : Good m f (step_s4 orc m f rest tok) := by
  have hv := (optInv_val (Or.inr (Or.inr (Or.inr hst)))).1 hinv
  unfold step_s4
  cases tok with
  | comma => exact good_run _ _ _ _ rest hs rfl ((optInv_val (Or.inr (Or.inl rfl))).2 hv)
  | rbrace =>
    simp only [runValid_spec]
    cases hvv : validVerdict orc m.k f with
    | none =>
      simp only [Option.map_none]
      refine good_reject _ _ _ _ _ (Or.inl ?_)
      rw [vetoed_rep orc _ _ f hvv]; omega
    | some cs => exact good_run _ _ _ _ rest (by simp [hs]) rfl (optInv_free _ (Or.inl rfl))
  | _ => good_auto hs

theorem step_s5_good (orc : Oracle) (m : PM) (f : Frame) (rest : List Frame) (tok : Tok) (hs : m.status = .running)
    (hst : f.state = .s5) (hinv : OptInv f) : Good m f (step_s5 orc m f rest tok) := by
  obtain ⟨r, o, hopt, hget, hty, htitle⟩ := (optInv_s5 hst).1 hinv
  unfold step_s5
  cases tok with
  | lbrace =>
    simp only [hopt, Option.bind_some, hget]
    have hc := setopt_sec_cell orc m.k f.cfg.info o f.opttitle hty htitle
    generalize setopt orc m.k f.cfg.info o f.opttitle = out at hc ⊢
    cases hres : out.res with
    | none =>
      refine good_reject _ _ _ _ _ (Or.inl ?_)
      have := length_pos' (hc.1 hres); simp; omega
    | some i =>
      obtain ⟨sec, hsec⟩ := hc.2 i hres
      simp only [hsec]
      exact good_run _ _ _ _ _ (by simp [hs]) rfl (optInv_free _ (Or.inl rfl))
  | _ => good_auto hs

theorem step_s6_good (orc : Oracle) (m : PM) (f : Frame) (rest : List Frame) (tok : Tok) (hs : m.status = .running)
    (hst : f.state = .s6) (hinv : OptInv f) : Good m f (step_s6 orc m f rest tok) := by
  obtain ⟨r, o, hopt, hget, hty⟩ := (optInv_s6 hst).1 hinv
  unfold step_s6
  cases tok with
  | str v => exact good_run _ _ _ _ rest hs rfl ((optInv_s5 rfl).2 ⟨r, o, hopt, hget, hty, fun _ => rfl⟩)
  | _ => good_auto hs

theorem step_s7_good (orc : Oracle) (m : PM) (f : Frame) (rest : List Frame) (tok : Tok) (hs : m.status = .running)
    (hst : f.state = .s7) (hinv : OptInv f) : Good m f (step_s7 orc m f rest tok) := by
  have hv := (optInv_func (Or.inl hst)).1 hinv
  unfold step_s7
  cases tok with
  | lparen => exact good_run _ _ _ _ rest hs rfl ((optInv_func (Or.inr (Or.inl rfl))).2 hv)
  | _ => good_auto hs

theorem step_s8_good (orc : Oracle) (m : PM) (f : Frame) (rest : List Frame) (tok : Tok) (hs : m.status = .running)
    (hst : f.state = .s8) (hinv : OptInv f) : Good m f (step_s8 orc m f rest tok) := by
  have hv := (optInv_func (Or.inr (Or.inl hst))).1 hinv
  unfold step_s8
  cases tok with
  | rparen => exact callFunction_good orc m f rest hs hv
  | str v => exact good_run _ _ _ _ rest hs rfl ((optInv_func (Or.inr (Or.inr rfl))).2 hv)
  | _ => good_auto hs

theorem step_s9_good (orc : Oracle) (m : PM) (f : Frame) (rest : List Frame) (tok : Tok) (hs : m.status = .running)
    (hst : f.state = .s9) (hinv : OptInv f) : Good m f (step_s9 orc m f rest tok) := by
  have hv := (optInv_func (Or.inr (Or.inr hst))).1 hinv
  unfold step_s9
  cases tok with
  | rparen => exact callFunction_good orc m f rest hs hv
  | comma => exact good_run _ _ _ _ rest hs rfl ((optInv_func (Or.inr (Or.inl rfl))).2 hv)
  | _ => good_auto hs

theorem step_s10_good (orc : Oracle) (m : PM) (f : Frame) (rest : List Frame) (tok : Tok) (hs : m.status = .running) :
    Good m f (step_s10 orc m f rest tok) := by
  unfold step_s10
  cases tok <;> good_auto hs

theorem step_s11_good (orc : Oracle) (m : PM) (f : Frame) (rest : List Frame) (tok : Tok) (hs : m.status = .running) :
    Good m f (step_s11 orc m f rest tok) := by
  unfold step_s11
  cases tok <;> good_auto hs

theorem step_s14_good (orc : Oracle) (m : PM) (f : Frame) (rest : List Frame) (tok : Tok) (hs : m.status = .running) :
    Good m f (step_s14 orc m f rest tok) := by
  unfold step_s14
  cases tok <;> good_auto hs

theorem step_s12_good (orc : Oracle) (m : PM) (f : Frame) (rest : List Frame) (tok : Tok) (hs : m.status = .running)
    (hm : m.frames = f :: rest) (hst : f.state = .s12) : Good m f (step_s12 orc m f rest tok) := by
  unfold step_s12
  cases tok with
  | lbrace => exact good_run _ _ _ _ rest hs rfl (optInv_free _ (by simp [hst]))
  | rbrace => simp only []; split <;> exact good_run _ _ _ _ rest hs rfl (optInv_free _ (by simp [hst]))
  | _ => exact good_run _ _ _ _ rest hs hm (optInv_free _ (by simp [hst]))

theorem step_s13_good (orc : Oracle) (m : PM) (f : Frame) (rest : List Frame) (tok : Tok) (hs : m.status = .running)
    (hm : m.frames = f :: rest) (hst : f.state = .s13) : Good m f (step_s13 orc m f rest tok) := by
  unfold step_s13
  simp only []
  split
  all_goals first
    | (simp only [if_true]; exact good_run _ _ _ _ rest hs rfl (optInv_free _ (Or.inl rfl)))
    | (simp only [Bool.false_eq_true, if_false]; exact good_run _ _ _ _ rest hs hm (optInv_free _ (by simp [hst])))

theorem depEffect_state (f : Frame) : (depEffect f).2.2.state = f.state := by
  unfold depEffect
  repeat' split
  all_goals rfl

theorem getOpt_appended (c : Cfg) (o : Opt) : (c.setOpts (c.opts ++ [o])).getOpt ⟨[], c.opts.length⟩ = some o := by
  cases c
  simp [Cfg.getOpt, getOptAt, Cfg.setOpts, Cfg.opts]

theorem step_s0_good (orc : Oracle) (m : PM) (f : Frame) (rest : List Frame) (tok : Tok) (hs : m.status = .running)
    (hst : f.state = .s0) : Good m f (step_s0 orc m f rest tok) := by
  unfold step_s0
  simp only [handleDeprecated_spec]
  have hst' := depEffect_state f
  generalize depEffect f = e at hst'
  obtain ⟨ds, ev, f'⟩ := e
  simp only [] at hst' ⊢
  rw [hst] at hst'
  have hs0 : ((m.addDiags f ds).addCalls ev).status = .running := by simp [hs]
  have hle : rep m ≤ rep ((m.addDiags f ds).addCalls ev) := by simp; omega
  generalize (m.addDiags f ds).addCalls ev = m0 at hs0 hle
  cases tok with
  | rbrace =>
    cases rest with
    | nil => exact good_rejectWith _ _ _ _ _ _ hle
    | cons p rest' =>
      simp only []
      split
      · exact good_rejectWith _ _ _ _ _ _ hle
      · simp only [runValid_spec]
        generalize ({ writeBack p f' with cfg := (writeBack p f').cfg.afterSection f'.cfg } : Frame) = p2
        cases hv : validVerdict orc m0.k p2 with
        | none =>
          simp only [Option.map_none]
          refine good_reject _ _ _ _ _ (Or.inl ?_)
          rw [vetoed_rep orc _ _ p2 hv]; omega
        | some cs => exact good_run _ _ _ _ rest' (by simp [hs0]) rfl (optInv_free _ (Or.inl rfl))
  | comment v =>
    simp only []
    split
    · exact good_run _ _ _ _ rest hs0 rfl (optInv_free _ (Or.inl hst'))
    · exact good_run _ _ _ _ rest hs0 rfl (optInv_free _ (Or.inl hst'))
  | str v =>
    simp only []
    have hR1 := getoptPath_valid f'.cfg v
    have hR2 := getoptPath_unresolved_diag f'.cfg v
    generalize getoptPath f'.cfg v = gp at hR1 hR2 ⊢
    cases hr : gp.ref with
    | none =>
      simp only []
      by_cases hi : f'.cfg.flags.ignoreUnknown = true
      · simp only [hi, if_true]
        exact good_run _ _ _ _ rest (by simp [hs0]) rfl (optInv_free _ (by simp))
      · simp only [hi, Bool.false_eq_true, if_false]
        by_cases hk : f'.cfg.flags.keystrval = true
        · simp only [hk, if_true]
          refine good_run _ _ _ _ rest (by simp [hs0]) rfl ((optInv_val (Or.inl rfl)).2 ⟨_, _, rfl, getOpt_appended _ _, ?_⟩)
          simp [valueKind, Opt.ty, Opt.info]
        · simp only [hk, Bool.false_eq_true, if_false]
          by_cases hv : v.isEmpty = true
          · simp only [hv, if_true]
            exact good_rejectWith _ _ _ _ _ _ (by simp; omega)
          · simp only [hv, Bool.false_eq_true, if_false]
            refine good_reject _ _ _ _ _ (Or.inl ?_)
            have := length_pos' (hR2 (by intro h; subst h; simp at hv) (by simpa using hi) (by simpa using hk) hr)
            simp; omega
    | some ref =>
      simp only []
      cases hget : f'.cfg.getOpt ref with
      | none => have := hR1 ref hr; simp [hget] at this
      | some o =>
        simp only []
        refine good_run _ _ _ _ rest (by simp [hs0]) rfl ?_
        by_cases h1 : (o.ty == .sec) = true
        · by_cases h2 : o.flags.title = true
          · simp only [h1, h2, if_true]
            exact (optInv_s6 rfl).2 ⟨ref, o, rfl, hget, by simpa using h1⟩
          · simp only [h1, h2, if_true, Bool.false_eq_true, if_false]
            exact (optInv_s5 rfl).2 ⟨ref, o, rfl, hget, by simpa using h1, fun h => absurd h h2⟩
        · by_cases h3 : (o.ty == .func) = true
          · simp only [h1, h3, if_true, Bool.false_eq_true, if_false]
            exact (optInv_func (Or.inl rfl)).2 ⟨ref, o, rfl, hget, by simpa using h3⟩
          · simp only [h1, h3, Bool.false_eq_true, if_false]
            exact (optInv_val (Or.inl rfl)).2 ⟨ref, o, rfl, hget, by simpa using h1, by simpa using h3⟩
  | _ => exact good_rejectWith _ _ _ _ _ _ hle

theorem good_frames (m : PM) (fs : List Frame) (f : Frame) (m' : PM) (h : Good { m with frames := fs } f m') : Good m f m' :=
  ⟨h.rej, h.run⟩

theorem good_stopped (m : PM) (f : Frame) (m' : PM) (h : m'.status = .accepted) : Good m f m' :=
  ⟨fun hr => by rw [h] at hr; exact absurd hr (by decide), fun hr => by rw [h] at hr; exact absurd hr (by decide)⟩

theorem dispatch_good (orc : Oracle) (m : PM) (f : Frame) (rest : List Frame) (tok : Tok) (nl : Nat)
    (hrun : m.status = .running) (hinv : OptInv f) :
    Good m (f.addLine nl)
      (match f.state with
      | .s0 => step_s0 orc { m with frames := f.addLine nl :: rest } (f.addLine nl) rest tok
      | .s1 => step_s1 orc { m with frames := f.addLine nl :: rest } (f.addLine nl) rest tok
      | .s2 => step_s2 orc { m with frames := f.addLine nl :: rest } (f.addLine nl) rest tok
      | .s3 => step_s3 orc { m with frames := f.addLine nl :: rest } (f.addLine nl) rest tok
      | .s4 => step_s4 orc { m with frames := f.addLine nl :: rest } (f.addLine nl) rest tok
      | .s5 => step_s5 orc { m with frames := f.addLine nl :: rest } (f.addLine nl) rest tok
      | .s6 => step_s6 orc { m with frames := f.addLine nl :: rest } (f.addLine nl) rest tok
      | .s7 => step_s7 orc { m with frames := f.addLine nl :: rest } (f.addLine nl) rest tok
      | .s8 => step_s8 orc { m with frames := f.addLine nl :: rest } (f.addLine nl) rest tok
      | .s9 => step_s9 orc { m with frames := f.addLine nl :: rest } (f.addLine nl) rest tok
      | .s10 => step_s10 orc { m with frames := f.addLine nl :: rest } (f.addLine nl) rest tok
      | .s11 => step_s11 orc { m with frames := f.addLine nl :: rest } (f.addLine nl) rest tok
      | .s12 => step_s12 orc { m with frames := f.addLine nl :: rest } (f.addLine nl) rest tok
      | .s13 => step_s13 orc { m with frames := f.addLine nl :: rest } (f.addLine nl) rest tok
      | .s14 => step_s14 orc { m with frames := f.addLine nl :: rest } (f.addLine nl) rest tok) := by
  have hF := optInv_addLine f nl hinv
  have hst0 : (f.addLine nl).state = f.state := rfl
  apply good_frames m (f.addLine nl :: rest)
  have hrun' : ({ m with frames := f.addLine nl :: rest } : PM).status = .running := hrun
  cases hst : f.state with
  | s0 => exact step_s0_good orc _ _ rest tok hrun' (hst0.trans hst)
  | s1 => exact step_s1_good orc _ _ rest tok hrun' (hst0.trans hst) hF
  | s2 => exact step_s2_good orc _ _ rest tok hrun' (hst0.trans hst) hF
  | s3 => exact step_s3_good orc _ _ rest tok hrun' (hst0.trans hst) hF
  | s4 => exact step_s4_good orc _ _ rest tok hrun' (hst0.trans hst) hF
  | s5 => exact step_s5_good orc _ _ rest tok hrun' (hst0.trans hst) hF
  | s6 => exact step_s6_good orc _ _ rest tok hrun' (hst0.trans hst) hF
  | s7 => exact step_s7_good orc _ _ rest tok hrun' (hst0.trans hst) hF
  | s8 => exact step_s8_good orc _ _ rest tok hrun' (hst0.trans hst) hF
  | s9 => exact step_s9_good orc _ _ rest tok hrun' (hst0.trans hst) hF
  | s10 => exact step_s10_good orc _ _ rest tok hrun'
  | s11 => exact step_s11_good orc _ _ rest tok hrun'
  | s12 => exact step_s12_good orc _ _ rest tok hrun' rfl (hst0.trans hst)
  | s13 => exact step_s13_good orc _ _ rest tok hrun' rfl (hst0.trans hst)
  | s14 => exact step_s14_good orc _ _ rest tok hrun'

/-- one step from a running machine: what it leaves behind is `Good` -/
theorem pstep_good (orc : Oracle) (m : PM) (f : Frame) (rest : List Frame) (tok : Tok) (nl : Nat)
    (hrun : m.status = .running) (hfr : m.frames = f :: rest) (hinv : OptInv f) :
    Good m (f.addLine nl) (pstep orc m tok nl) := by
  cases tok with
  | err e =>
    rw [pstep_err orc m f rest e nl hrun hfr]
    exact good_rejectWith _ _ _ _ _ _ (Nat.le_refl _)
  | eof =>
    rw [pstep_eof orc m f rest nl hrun hfr]
    split
    · exact good_rejectWith _ _ _ _ _ _ (Nat.le_refl _)
    · exact good_stopped _ _ _ rfl
  | comment v =>
    by_cases hs0 : f.state = .s0
    · rw [pstep_running orc m f rest _ nl hrun hfr rfl (Or.inr hs0)]
      exact dispatch_good orc m f rest _ nl hrun hinv
    · rw [pstep_comment_skip orc m f rest v nl hrun hfr hs0]
      exact good_run _ _ _ _ rest hrun rfl (optInv_addLine f nl hinv)
  | str v => rw [pstep_running orc m f rest _ nl hrun hfr rfl (Or.inl rfl)]; exact dispatch_good orc m f rest _ nl hrun hinv
  | lbrace => rw [pstep_running orc m f rest _ nl hrun hfr rfl (Or.inl rfl)]; exact dispatch_good orc m f rest _ nl hrun hinv
  | rbrace => rw [pstep_running orc m f rest _ nl hrun hfr rfl (Or.inl rfl)]; exact dispatch_good orc m f rest _ nl hrun hinv
  | lparen => rw [pstep_running orc m f rest _ nl hrun hfr rfl (Or.inl rfl)]; exact dispatch_good orc m f rest _ nl hrun hinv
  | rparen => rw [pstep_running orc m f rest _ nl hrun hfr rfl (Or.inl rfl)]; exact dispatch_good orc m f rest _ nl hrun hinv
  | eq => rw [pstep_running orc m f rest _ nl hrun hfr rfl (Or.inl rfl)]; exact dispatch_good orc m f rest _ nl hrun hinv
  | pluseq => rw [pstep_running orc m f rest _ nl hrun hfr rfl (Or.inl rfl)]; exact dispatch_good orc m f rest _ nl hrun hinv
  | comma => rw [pstep_running orc m f rest _ nl hrun hfr rfl (Or.inl rfl)]; exact dispatch_good orc m f rest _ nl hrun hinv

/-- **Invariant.** In the states that follow an option name, the current option exists and is of the
kind that led there. -/
theorem pstep_optinv (orc : Oracle) (m : PM) (tok : Tok) (nl : Nat) (h : OptInvM m) : OptInvM (pstep orc m tok nl) := by
  by_cases hrun : m.status = .running
  · cases hfr : m.frames with
    | nil =>
      have : pstep orc m tok nl = m := by unfold pstep; simp [hfr]
      rw [this]; exact h
    | cons f rest => exact (pstep_good orc m f rest tok nl hrun hfr (h hrun f (by simp [hfr]))).run
  · rw [pstep_stopped orc m tok nl hrun]; exact h

theorem parseToks_optinv (orc : Oracle) (ts : List LTok) : ∀ m, OptInvM m → OptInvM (parseToks orc m ts) := by
  induction ts with
  | nil => intro m h; exact h
  | cons t ts ih => intro m h; exact ih _ (pstep_optinv orc m t.1 t.2 h)

theorem noCode_addLine (f : Frame) (nl : Nat) (h : NoCode (f.addLine nl)) : NoCode f := by
  obtain ⟨r, o, h1, h2, h3⟩ := h
  exact ⟨r, o, h1, by rw [getOpt_addLine] at h2; exact h2, h3⟩

/-- **Every rejection is reported.**  A step that takes a running machine to `rejected` has told the
application something — a diagnostic or a callback invocation — unless the option being called is a
function option declared without a function. -/
theorem pstep_reject_reported (orc : Oracle) (m : PM) (tok : Tok) (nl : Nat) (hrun : m.status = .running) (hinv : OptInvM m)
    (hrej : (pstep orc m tok nl).status = .rejected) :
    rep m < rep (pstep orc m tok nl) ∨ ∃ f ∈ m.frames.head?, NoCode f := by
  cases hfr : m.frames with
  | nil =>
    have : pstep orc m tok nl = m := by unfold pstep; simp [hfr]
    rw [this, hrun] at hrej; exact absurd hrej (by decide)
  | cons f rest =>
    rcases (pstep_good orc m f rest tok nl hrun hfr (hinv hrun f (by simp [hfr]))).rej hrej with h | h
    · exact Or.inl h
    · exact Or.inr ⟨f, by simp, noCode_addLine f nl h⟩

theorem rep_mono {a b : PM} (h : Grows a b) : rep a ≤ rep b := by
  obtain ⟨⟨c1, h1⟩, ⟨c2, h2⟩⟩ := h
  simp [rep, h1, h2]; omega

theorem startPM_optinv (c : Cfg) (text : Bytes) (k0 : Nat) : OptInvM (startPM c text k0) := by
  intro _ f hf
  simp [startPM] at hf
  subst hf
  exact optInv_free _ (Or.inl rfl)

/-- **Every rejected parse was reported** (whole token streams): if the machine ends rejected, the
application was told strictly more than before the parse began — or the parse ran into a function
option declared without a function (the state before that token is exhibited). -/
theorem parseToks_reject_reported (orc : Oracle) (ts : List LTok) : ∀ (m : PM), m.status = .running → OptInvM m →
    (parseToks orc m ts).status = .rejected →
    rep m < rep (parseToks orc m ts) ∨
      ∃ pre post, ts = pre ++ post ∧ ∃ f ∈ (parseToks orc m pre).frames.head?, NoCode f := by
  induction ts with
  | nil => intro m hrun _ hrej; rw [parseToks, List.foldl_nil, hrun] at hrej; exact absurd hrej (by decide)
  | cons t ts ih =>
    intro m hrun hinv hrej
    rw [parseToks_cons] at hrej ⊢
    have hg := pstep_grows orc m t.1 t.2
    by_cases h1 : (pstep orc m t.1 t.2).status = .running
    · rcases ih _ h1 (pstep_optinv orc m t.1 t.2 hinv) hrej with h | ⟨pre, post, he, f, hf, hn⟩
      · left; have := rep_mono hg; omega
      · right; exact ⟨t :: pre, post, by rw [he]; rfl, f, by rw [parseToks_cons]; exact hf, hn⟩
    · rw [parseToks_stopped orc _ ts h1] at hrej ⊢
      rcases pstep_reject_reported orc m t.1 t.2 hrun hinv hrej with h | ⟨f, hf, hn⟩
      · exact Or.inl h
      · exact Or.inr ⟨[], t :: ts, rfl, f, hf, hn⟩

end Confuse
