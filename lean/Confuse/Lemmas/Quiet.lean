import Confuse.Lemmas.Reported
/-!
# A step that does not reject says nothing — except deprecation notices

`nd m` is the list of diagnostics delivered so far that are not deprecation notices.  A step that
does not end in `rejected` leaves it unchanged; so a parse that is accepted has delivered nothing
but deprecation notices, and those are issued only for an option that carries the DEPRECATED flag.
-/
namespace Confuse

def isDep (c : DiagCls) : Bool := c == .deprecatedDrop || c == .deprecatedKeep

/-- the diagnostics delivered so far whose class is not in `P` (with `P := isDep`: everything but
deprecation notices; with `P := fun _ => false`: everything) -/
def nd (P : DiagCls → Bool) (m : PM) : List Diag := m.diags.filter (fun d => !P d.cls)

def Quiet (P : DiagCls → Bool) (m m' : PM) : Prop := m'.status ≠ .rejected → nd P m' = nd P m

variable {P : DiagCls → Bool}

@[simp] theorem nd_addCalls (m : PM) (cs : List CbCall) : nd P (m.addCalls cs) = nd P m := rfl
@[simp] theorem nd_addDiags_nil (m : PM) (f : Frame) : nd P (m.addDiags f []) = nd P m := by simp [nd, PM.addDiags]

theorem nd_addDiags_dep (m : PM) (f : Frame) (cs : List DiagCls) (h : ∀ c ∈ cs, P c = true) : nd P (m.addDiags f cs) = nd P m := by
  simp only [nd, PM.addDiags, List.filter_append]
  have : List.filter (fun d => !P d.cls) (List.map f.diag cs).reverse = [] := by
    simp only [List.filter_eq_nil_iff, List.mem_reverse, List.mem_map]
    rintro d ⟨c, hc, rfl⟩
    simp [Frame.diag, h c hc]
  rw [this]; rfl

theorem quiet_reject (m m0 : PM) (g : Frame) (rest : List Frame) : Quiet P m (m0.reject g rest) := fun h => absurd (status_reject _ _ _) h
theorem quiet_rejectWith (m m0 : PM) (g : Frame) (rest : List Frame) (c : DiagCls) : Quiet P m (m0.rejectWith g rest c) :=
  fun h => absurd (by simp [PM.rejectWith]) h
theorem quiet_of (m m' : PM) (h : nd P m' = nd P m) : Quiet P m m' := fun _ => h

/-- a store that succeeds is silent -/
theorem setopt_ok_quiet (orc : Oracle) (k : Nat) (ci : CfgInfo) (o : Opt) (v : Option Bytes) (i : Nat)
    (h : (setopt orc k ci o v).res = some i) : (setopt orc k ci o v).diags = [] := by
  revert h
  unfold setopt
  cases setoptConvert orc k o v with
  | error e => intro h; simp at h
  | ok p =>
    simp only []
    refine setOut_ite' (fun s => s.res = some i → s.diags = []) _ _ _ (fun h => by simp at h) ?_
    refine setOut_ite' (fun s => s.res = some i → s.diags = []) _ _ _ (fun h => by simp at h) (fun _ => rfl)

theorem storeValue_quiet (orc : Oracle) (m : PM) (f : Frame) (rest : List Frame) (v : Bytes) (next : PState) :
    Quiet P m (storeValue orc m f rest v next) := by
  unfold storeValue
  cases hopt : f.opt with
  | none => exact quiet_reject _ _ _ _
  | some r =>
    simp only []
    cases hget : f.cfg.getOpt r with
    | none => exact quiet_reject _ _ _ _
    | some o =>
      simp only []
      have hq := setopt_ok_quiet orc m.k f.cfg.info o (some v)
      generalize setopt orc m.k f.cfg.info o (some v) = out at hq ⊢
      cases hres : out.res with
      | none => exact quiet_reject _ _ _ _
      | some i =>
        simp only [runValid_spec]
        generalize ({ f with cfg := f.cfg.setOpt r out.opt, opt := some r } : Frame) = f1
        cases hv : validVerdict orc ((m.addCalls out.calls).addDiags f1 out.diags).k f1 with
        | none => exact quiet_reject _ _ _ _
        | some cs =>
          simp only [Option.map_some]
          refine quiet_of _ _ ?_
          rw [hq i hres]
          show nd P (((m.addCalls out.calls).addDiags f1 []).addCalls cs) = nd P m
          simp

macro "quiet_auto" : tactic =>
  `(tactic| (try simp only []
             repeat' (split <;> try simp only [])
             all_goals first
               | exact quiet_reject _ _ _ _
               | exact quiet_rejectWith _ _ _ _ _
               | exact quiet_of _ _ rfl))

theorem callFunction_quiet (orc : Oracle) (m : PM) (f : Frame) (rest : List Frame) : Quiet P m (callFunction orc m f rest) := by
  unfold callFunction
  quiet_auto

theorem step_s1_quiet (orc : Oracle) (m : PM) (f : Frame) (rest : List Frame) (tok : Tok) : Quiet P m (step_s1 orc m f rest tok) := by
  unfold step_s1; quiet_auto
theorem step_s6_quiet (orc : Oracle) (m : PM) (f : Frame) (rest : List Frame) (tok : Tok) : Quiet P m (step_s6 orc m f rest tok) := by
  unfold step_s6; quiet_auto
theorem step_s7_quiet (orc : Oracle) (m : PM) (f : Frame) (rest : List Frame) (tok : Tok) : Quiet P m (step_s7 orc m f rest tok) := by
  unfold step_s7; quiet_auto
theorem step_s10_quiet (orc : Oracle) (m : PM) (f : Frame) (rest : List Frame) (tok : Tok) : Quiet P m (step_s10 orc m f rest tok) := by
  unfold step_s10; quiet_auto
theorem step_s11_quiet (orc : Oracle) (m : PM) (f : Frame) (rest : List Frame) (tok : Tok) : Quiet P m (step_s11 orc m f rest tok) := by
  unfold step_s11; quiet_auto
theorem step_s12_quiet (orc : Oracle) (m : PM) (f : Frame) (rest : List Frame) (tok : Tok) : Quiet P m (step_s12 orc m f rest tok) := by
  unfold step_s12; quiet_auto
theorem step_s13_quiet (orc : Oracle) (m : PM) (f : Frame) (rest : List Frame) (tok : Tok) : Quiet P m (step_s13 orc m f rest tok) := by
  unfold step_s13; quiet_auto
theorem step_s14_quiet (orc : Oracle) (m : PM) (f : Frame) (rest : List Frame) (tok : Tok) : Quiet P m (step_s14 orc m f rest tok) := by
  unfold step_s14; quiet_auto

theorem step_s2_quiet (orc : Oracle) (m : PM) (f : Frame) (rest : List Frame) (tok : Tok) : Quiet P m (step_s2 orc m f rest tok) := by
  unfold step_s2
  cases tok with
  | str v => exact storeValue_quiet orc m f rest v _
  | _ => quiet_auto

theorem step_s3_quiet (orc : Oracle) (m : PM) (f : Frame) (rest : List Frame) (tok : Tok) : Quiet P m (step_s3 orc m f rest tok) := by
  unfold step_s3
  cases tok with
  | str v => exact storeValue_quiet orc m f rest v _
  | _ => quiet_auto

theorem step_s8_quiet (orc : Oracle) (m : PM) (f : Frame) (rest : List Frame) (tok : Tok) : Quiet P m (step_s8 orc m f rest tok) := by
  unfold step_s8
  cases tok with
  | rparen => exact callFunction_quiet orc m f rest
  | _ => quiet_auto

theorem step_s9_quiet (orc : Oracle) (m : PM) (f : Frame) (rest : List Frame) (tok : Tok) : Quiet P m (step_s9 orc m f rest tok) := by
  unfold step_s9
  cases tok with
  | rparen => exact callFunction_quiet orc m f rest
  | _ => quiet_auto

theorem step_s4_quiet (orc : Oracle) (m : PM) (f : Frame) (rest : List Frame) (tok : Tok) : Quiet P m (step_s4 orc m f rest tok) := by
  unfold step_s4
  cases tok with
  | rbrace =>
    simp only [runValid_spec]
    cases validVerdict orc m.k f with
    | none => exact quiet_reject _ _ _ _
    | some cs => exact quiet_of _ _ rfl
  | _ => quiet_auto

theorem step_s5_quiet (orc : Oracle) (m : PM) (f : Frame) (rest : List Frame) (tok : Tok) : Quiet P m (step_s5 orc m f rest tok) := by
  unfold step_s5
  cases tok with
  | lbrace =>
    simp only []
    split
    · rename_i r o _ _
      have hq := setopt_ok_quiet orc m.k f.cfg.info o f.opttitle
      generalize setopt orc m.k f.cfg.info o f.opttitle = out at hq ⊢
      cases hres : out.res with
      | none => exact quiet_reject _ _ _ _
      | some i =>
        simp only []
        split
        · refine quiet_of _ _ ?_
          rw [hq i hres]
          simp [nd, PM.addDiags, PM.addCalls]
        · exact quiet_reject _ _ _ _
    · exact quiet_reject _ _ _ _
  | _ => quiet_auto

theorem depEffect_dep (f : Frame) : ∀ c ∈ (depEffect f).1, isDep c = true := by
  unfold depEffect
  repeat' split
  all_goals simp [isDep]

/-- a deprecation notice is issued only for a current option that carries the DEPRECATED flag -/
theorem depEffect_flag (f : Frame) (h : (depEffect f).1 ≠ []) :
    ∃ r o, f.opt = some r ∧ f.cfg.getOpt r = some o ∧ o.flags.deprecated = true := by
  unfold depEffect at h
  cases hopt : f.opt with
  | none => simp [hopt] at h
  | some r =>
    cases hget : f.cfg.getOpt r with
    | none => simp [hopt, hget] at h
    | some o =>
      by_cases hd : o.flags.deprecated = true
      · exact ⟨r, o, rfl, hget, hd⟩
      · simp [hopt, hget, hd] at h

theorem step_s0_quiet (orc : Oracle) (m : PM) (f : Frame) (rest : List Frame) (tok : Tok)
    (hdep : ∀ c ∈ (depEffect f).1, P c = true) : Quiet P m (step_s0 orc m f rest tok) := by
  unfold step_s0
  simp only [handleDeprecated_spec]
  have hd := hdep
  generalize depEffect f = e at hd
  obtain ⟨ds, ev, f'⟩ := e
  simp only [] at hd ⊢
  have h0 : nd P ((m.addDiags f ds).addCalls ev) = nd P m := by simp [nd_addDiags_dep _ _ _ hd]
  generalize (m.addDiags f ds).addCalls ev = m0 at h0
  cases tok with
  | rbrace =>
    cases rest with
    | nil => exact quiet_rejectWith _ _ _ _ _
    | cons p rest' =>
      simp only []
      split
      · exact quiet_rejectWith _ _ _ _ _
      · simp only [runValid_spec]
        cases validVerdict orc m0.k _ with
        | none => exact quiet_reject _ _ _ _
        | some cs => exact quiet_of _ _ h0
  | comment v => simp only []; split <;> exact quiet_of _ _ h0
  | str v =>
    simp only []
    have hR3 := getoptPath_resolved_quiet f'.cfg v
    have hQ := getoptPath_quiet' f'.cfg v
    generalize getoptPath f'.cfg v = gp at hR3 hQ ⊢
    cases hr : gp.ref with
    | none =>
      simp only []
      by_cases hi : f'.cfg.flags.ignoreUnknown = true
      · simp only [hi, if_true]
        refine quiet_of _ _ ?_
        rw [hQ (Or.inl hi)]
        exact (nd_addDiags_nil m0 f').trans h0
      · simp only [hi, Bool.false_eq_true, if_false]
        by_cases hk : f'.cfg.flags.keystrval = true
        · simp only [hk, if_true]
          refine quiet_of _ _ ?_
          rw [hQ (Or.inr hk)]
          exact (nd_addDiags_nil m0 f').trans h0
        · simp only [hk, Bool.false_eq_true, if_false]
          split
          · exact quiet_rejectWith _ _ _ _ _
          · exact quiet_reject _ _ _ _
    | some ref =>
      simp only []
      cases f'.cfg.getOpt ref with
      | none => exact quiet_reject _ _ _ _
      | some o =>
        refine quiet_of _ _ ?_
        rw [hR3 ref hr]
        exact (nd_addDiags_nil m0 f').trans h0
  | _ => exact quiet_rejectWith _ _ _ _ _

theorem quiet_frames (m : PM) (fs : List Frame) (m' : PM) (h : Quiet P { m with frames := fs } m') : Quiet P m m' := h

theorem dispatch_quiet (orc : Oracle) (m : PM) (f : Frame) (rest : List Frame) (tok : Tok) (nl : Nat)
    (hdep : ∀ c ∈ (depEffect (f.addLine nl)).1, P c = true) :
    Quiet P m
      (match f.state with
      | .s0 => step_s0 orc { m with frames := f.addLine nl :: rest } (f.addLine nl) rest tok
      | .s1 => step_s1 orc { m with frames := f.addLine nl :: rest } (f.addLine nl) rest tok
      | .s2 => step_s2 orc { m with frames := f.addLine nl :: rest } (f.addLine nl) rest tok
      | .s3 => step_s3 orc { m with frames := f.addLine nl :: rest } (f.addLine nl) rest tok
      | .s4 => step_s4 orc { m with frames := f.addLine nl :: rest } (f.addLine nl) rest tok
      | .s5 => step_s5 orc { m with frames := f.addLine nl :: rest } (f.addLine nl) rest tok
      | .s6 => step_s6 orc { m with frames := f.addLine nl :: rest } (f.addLine nl) rest tok
      | .s7 => step_s7 orc { m with frames := f.addLine nl :: rest } (f.addLine nl) rest tok
      | .s8 => step_s8 orc { m with frames := f.addLine nl :: rest } (f.addLine nl) rest tok
      | .s9 => step_s9 orc { m with frames := f.addLine nl :: rest } (f.addLine nl) rest tok
      | .s10 => step_s10 orc { m with frames := f.addLine nl :: rest } (f.addLine nl) rest tok
      | .s11 => step_s11 orc { m with frames := f.addLine nl :: rest } (f.addLine nl) rest tok
      | .s12 => step_s12 orc { m with frames := f.addLine nl :: rest } (f.addLine nl) rest tok
      | .s13 => step_s13 orc { m with frames := f.addLine nl :: rest } (f.addLine nl) rest tok
      | .s14 => step_s14 orc { m with frames := f.addLine nl :: rest } (f.addLine nl) rest tok) := by
  apply quiet_frames m (f.addLine nl :: rest)
  cases f.state with
  | s0 => exact step_s0_quiet orc _ _ rest tok hdep
  | s1 => exact step_s1_quiet orc _ _ rest tok
  | s2 => exact step_s2_quiet orc _ _ rest tok
  | s3 => exact step_s3_quiet orc _ _ rest tok
  | s4 => exact step_s4_quiet orc _ _ rest tok
  | s5 => exact step_s5_quiet orc _ _ rest tok
  | s6 => exact step_s6_quiet orc _ _ rest tok
  | s7 => exact step_s7_quiet orc _ _ rest tok
  | s8 => exact step_s8_quiet orc _ _ rest tok
  | s9 => exact step_s9_quiet orc _ _ rest tok
  | s10 => exact step_s10_quiet orc _ _ rest tok
  | s11 => exact step_s11_quiet orc _ _ rest tok
  | s12 => exact step_s12_quiet orc _ _ rest tok
  | s13 => exact step_s13_quiet orc _ _ rest tok
  | s14 => exact step_s14_quiet orc _ _ rest tok

/-- **A step that does not reject delivers nothing but deprecation notices.** -/
theorem pstep_quiet (orc : Oracle) (m : PM) (tok : Tok) (nl : Nat)
    (hdep : ∀ f ∈ m.frames.head?, ∀ c ∈ (depEffect (f.addLine nl)).1, P c = true) : Quiet P m (pstep orc m tok nl) := by
  by_cases hrun : m.status = .running
  · cases hfr : m.frames with
    | nil =>
      have : pstep orc m tok nl = m := by unfold pstep; simp [hfr]
      rw [this]; exact fun _ => rfl
    | cons f rest =>
      have hdep := hdep f (by simp [hfr])
      cases tok with
      | err e => rw [pstep_err orc m f rest e nl hrun hfr]; exact quiet_rejectWith _ _ _ _ _
      | eof =>
        rw [pstep_eof orc m f rest nl hrun hfr]
        split
        · exact quiet_rejectWith _ _ _ _ _
        · simp only [handleDeprecated_spec]
          refine quiet_of _ _ ?_
          exact nd_addDiags_dep _ _ _ hdep
      | comment v =>
        by_cases hs0 : f.state = .s0
        · rw [pstep_running orc m f rest _ nl hrun hfr rfl (Or.inr hs0)]
          exact dispatch_quiet orc m f rest _ nl hdep
        · rw [pstep_comment_skip orc m f rest v nl hrun hfr hs0]
          exact fun _ => rfl
      | str v => rw [pstep_running orc m f rest _ nl hrun hfr rfl (Or.inl rfl)]; exact dispatch_quiet orc m f rest _ nl hdep
      | lbrace => rw [pstep_running orc m f rest _ nl hrun hfr rfl (Or.inl rfl)]; exact dispatch_quiet orc m f rest _ nl hdep
      | rbrace => rw [pstep_running orc m f rest _ nl hrun hfr rfl (Or.inl rfl)]; exact dispatch_quiet orc m f rest _ nl hdep
      | lparen => rw [pstep_running orc m f rest _ nl hrun hfr rfl (Or.inl rfl)]; exact dispatch_quiet orc m f rest _ nl hdep
      | rparen => rw [pstep_running orc m f rest _ nl hrun hfr rfl (Or.inl rfl)]; exact dispatch_quiet orc m f rest _ nl hdep
      | eq => rw [pstep_running orc m f rest _ nl hrun hfr rfl (Or.inl rfl)]; exact dispatch_quiet orc m f rest _ nl hdep
      | pluseq => rw [pstep_running orc m f rest _ nl hrun hfr rfl (Or.inl rfl)]; exact dispatch_quiet orc m f rest _ nl hdep
      | comma => rw [pstep_running orc m f rest _ nl hrun hfr rfl (Or.inl rfl)]; exact dispatch_quiet orc m f rest _ nl hdep
  · rw [pstep_stopped orc m tok nl hrun]; exact fun _ => rfl

/-- whole token streams: unless the parse ends rejected, every diagnostic it delivered is a
deprecation notice -/
theorem parseToks_quiet (orc : Oracle) (ts : List LTok) : ∀ (m : PM), (parseToks orc m ts).status ≠ .rejected →
    nd isDep (parseToks orc m ts) = nd isDep m := by
  induction ts with
  | nil => intro m _; rfl
  | cons t ts ih =>
    intro m h
    rw [parseToks_cons] at h ⊢
    rw [ih _ h]
    by_cases h1 : (pstep orc m t.1 t.2).status = .rejected
    · rw [parseToks_stopped orc _ ts (by rw [h1]; decide)] at h
      exact absurd h1 h
    · exact pstep_quiet orc m t.1 t.2 (fun f _ => depEffect_dep _) h1

end Confuse
