import Confuse.Lemmas.SkipInv
/-!
# The current option is what the state says it is

In the states that follow an option name the frame's `opt` refers to an existing option of the kind
that led there: a value option in states 1–4, a section in 5–6, a function in 7–9.
-/
namespace Confuse

def valueKind (o : Opt) : Prop := o.ty ≠ .sec ∧ o.ty ≠ .func

def OptInv (f : Frame) : Prop :=
  match f.state with
  | .s1 | .s2 | .s3 | .s4 => ∃ r o, f.opt = some r ∧ f.cfg.getOpt r = some o ∧ valueKind o
  | .s5 => ∃ r o, f.opt = some r ∧ f.cfg.getOpt r = some o ∧ o.ty = .sec ∧ (o.flags.title = true → f.opttitle.isSome)
  | .s6 => ∃ r o, f.opt = some r ∧ f.cfg.getOpt r = some o ∧ o.ty = .sec
  | .s7 | .s8 | .s9 => ∃ r o, f.opt = some r ∧ f.cfg.getOpt r = some o ∧ o.ty = .func
  | _ => True

def OptInvM (m : PM) : Prop := m.status = .running → ∀ f ∈ m.frames.head?, OptInv f

theorem optInv_addLine (f : Frame) (n : Nat) (h : OptInv f) : OptInv (f.addLine n) := by
  unfold OptInv at h ⊢
  have hs : (f.addLine n).state = f.state := rfl
  have ho : (f.addLine n).opt = f.opt := rfl
  rw [hs]
  cases hst : f.state <;> simp only [hst] at h ⊢ <;> first
    | trivial
    | (obtain ⟨r, o, h1, h2, h3⟩ := h; exact ⟨r, o, by rw [ho]; exact h1, by rw [getOpt_addLine]; exact h2, h3⟩)


/-! ### facts about `setopt` used below -/

theorem findTitle_lt (nocase : Bool) (t : Bytes) : ∀ (vs : List Val) (i k : Nat), findTitle nocase t vs i = some k → i ≤ k ∧ k < i + vs.length := by
  intro vs
  induction vs with
  | nil => intro i k h; simp [findTitle] at h
  | cons v vs ih =>
    intro i k h
    cases v with
    | sec c =>
      simp only [findTitle] at h
      cases hc : c.info.title with
      | none =>
        simp only [hc] at h
        have := ih (i + 1) k h
        simp only [List.length_cons]; omega
      | some t' =>
        simp only [hc] at h
        split at h
        · simp only [Option.some.injEq] at h; subst h; simp
        · have := ih (i + 1) k h
          simp only [List.length_cons]; omega
    | _ =>
      simp only [findTitle] at h
      have := ih (i + 1) k h
      simp only [List.length_cons]; omega


theorem ite_some_lt {c : Prop} [Decidable c] {x : Option Nat} {j n : Nat} (h : (if c then x else none) = some j)
    (hx : x = some j → j < n) : j < n := by
  split at h
  · exact hx h
  · simp at h

theorem listSet_get' {α} (l : List α) (i : Nat) (y : α) (h : i < l.length) : (listSet l i y)[i]? = some y :=
  listSet_get l i y (by simp [h])

/-- `cfg_setopt` on a section option: it either reports, or hands back a cell that holds a section -/
theorem setopt_sec_cell (orc : Oracle) (k : Nat) (ci : CfgInfo) (o : Opt) (v : Option Bytes) (hty : o.ty = .sec)
    (htitle : o.flags.title = true → v.isSome) :
    ((setopt orc k ci o v).res = none → (setopt orc k ci o v).diags ≠ []) ∧
    (∀ i, (setopt orc k ci o v).res = some i → ∃ s, (setopt orc k ci o v).opt.vals[i]? = some (.sec s)) := by
  have hconv : setoptConvert orc k o v = .ok (.sec, []) := by unfold setoptConvert; simp [hty]
  unfold setopt
  simp only [hconv]
  have hd := dropDefaults_sameDecl o
  generalize dropDefaults o = dd at hd ⊢
  obtain ⟨o1, ev1⟩ := dd
  simp only [] at hd ⊢
  have hty1 : o1.ty = .sec := by
    have := hd.1; simp only [Opt.ty] at hty ⊢; rw [this]; exact hty
  have htl : o1.flags.title = o.flags.title := by
    have := congrArg Flags.title hd.2.2; simpa [Flags.base] using this
  by_cases hc1 : ((o1.vals.length == 0 || o1.flags.multi || o1.flags.list) && o1.ty == Ty.sec && o1.flags.title && o1.vals.length != 0 && v.isNone) = true
  · -- excluded: a titled section always comes with a title
    exfalso
    simp only [Bool.and_eq_true] at hc1
    have ht : o.flags.title = true := by rw [← htl]; exact hc1.1.1.2
    have := htitle ht
    have hn := hc1.2
    cases v <;> simp_all
  · rw [if_neg hc1]
    refine setOut_ite' (fun s => (s.res = none → s.diags ≠ []) ∧ (∀ i, s.res = some i → ∃ sec, s.opt.vals[i]? = some (.sec sec))) _ _ _ ?_ ?_
    · exact ⟨fun _ => by simp, fun i h => by simp at h⟩
    · refine ⟨fun h => by simp at h, ?_⟩
      intro i hi
      simp only [Option.some.injEq] at hi
      subst hi
      simp only [Opt.vals]
      -- what `found` can be: nothing, or the index of an existing instance
      have key : ∀ (v' : Option Bytes) (found : Option Nat), (∀ j, found = some j → j < o1.vals.length) →
          ∃ sec, (setoptStore ci o1 Conv.sec v' (o1.vals.length == 0 || o1.flags.multi || o1.flags.list) found).2.1[
            (setoptStore ci o1 Conv.sec v' (o1.vals.length == 0 || o1.flags.multi || o1.flags.list) found).1]? = some (.sec sec) := by
        intro v' found hf
        unfold setoptStore
        simp only []
        by_cases happ : (o1.vals.length == 0 || o1.flags.multi || o1.flags.list) = true
        · simp only [happ, Bool.true_and, if_true]
          cases found with
          | none =>
            simp only [Option.isNone_none, if_true]
            exact ⟨mkSection ci o1 v', by simp⟩
          | some j =>
            have hj := hf j rfl
            simp only [Option.isNone_some, Bool.false_eq_true, if_false]
            cases hold : o1.vals[j]? with
            | none => simp at hold; omega
            | some old =>
              rw [listSet_get' _ _ _ hj]
              cases old <;> simp
              split <;> simp
        · simp only [happ, Bool.false_and, Bool.false_eq_true, if_false]
          have hn : 0 < o1.vals.length := by
            simp only [Bool.or_eq_true, beq_iff_eq, not_or] at happ
            omega
          rw [listSet_get' _ _ _ hn]
          cases hold : o1.vals[0]? with
          | none => simp
          | some old => cases old <;> simp; split <;> simp
      have hlen := o1.vals.length
      cases v with
      | none =>
        simp only []
        refine key _ _ ?_
        intro j hj
        exact ite_some_lt hj (fun h => by simp at h)
      | some t =>
        simp only []
        refine key _ _ ?_
        intro j hj
        exact ite_some_lt hj (fun h => by have := findTitle_lt ci.flags.nocase t _ 0 j h; simp only [Opt.vals] at this ⊢; omega)


macro "conv_tac" h:ident : tactic =>
  `(tactic| (repeat' split at $h:ident
             all_goals first
               | (simp at $h:ident; done)
               | (simp only [Except.error.injEq] at $h:ident; subst $h:ident; simp; done)))

theorem convert_error_reported (orc : Oracle) (k : Nat) (o : Opt) (v : Bytes) (e : List DiagCls × List CbCall) (hk : valueKind o)
    (h : setoptConvert orc k o (some v) = .error e) :
    e.1 ≠ [] ∨ e.2 ≠ [] := by
  unfold setoptConvert at h
  obtain ⟨h1, h2⟩ := hk
  cases hty : o.ty with
  | sec => exact absurd hty h1
  | func => exact absurd hty h2
  | int =>
    simp only [hty] at h
    by_cases hp : o.info.parseCb = true
    · simp only [hp, if_true] at h
      right; conv_tac h
    · simp only [hp, Bool.false_eq_true, if_false] at h
      left; conv_tac h
  | float =>
    simp only [hty] at h
    by_cases hp : o.info.parseCb = true
    · simp only [hp, if_true] at h
      right; conv_tac h
    · simp only [hp, Bool.false_eq_true, if_false] at h
      left; conv_tac h
  | bool =>
    simp only [hty] at h
    by_cases hp : o.info.parseCb = true
    · simp only [hp, if_true] at h
      right; conv_tac h
    · simp only [hp, Bool.false_eq_true, if_false] at h
      left; conv_tac h
  | str =>
    simp only [hty] at h
    by_cases hp : o.info.parseCb = true
    · simp only [hp, if_true] at h
      right; conv_tac h
    · simp only [hp, Bool.false_eq_true, if_false] at h
      simp at h
  | ptr =>
    simp only [hty] at h
    by_cases hp : o.info.parseCb = true
    · simp only [hp, if_true] at h
      right; conv_tac h
    · simp only [hp, Bool.false_eq_true, if_false] at h
      left; conv_tac h

/-- a refused value option reports: a diagnostic, or the parse callback was consulted (and is
responsible for reporting) -/
theorem setopt_value_reported (orc : Oracle) (k : Nat) (ci : CfgInfo) (o : Opt) (v : Bytes) (hk : valueKind o)
    (h : (setopt orc k ci o (some v)).res = none) :
    (setopt orc k ci o (some v)).diags ≠ [] ∨ (setopt orc k ci o (some v)).calls ≠ [] := by
  unfold setopt at h ⊢
  cases hcv : setoptConvert orc k o (some v) with
  | error e =>
    simp only []
    exact convert_error_reported orc k o v e hk hcv
  | ok p =>
    -- a value option that converts is stored: no refusal
    exfalso
    simp only [hcv] at h
    have hd := dropDefaults_sameDecl o
    generalize dropDefaults o = dd at hd h
    obtain ⟨o1, ev1⟩ := dd
    have hty1 : o1.ty = o.ty := by have := hd.1; simp only [Opt.ty]; rw [this]
    have hns : (o1.ty == Ty.sec) = false := by rw [hty1]; have := hk.1; cases h : o.ty <;> simp_all
    simp only [hns, Bool.and_false, Bool.false_and, Bool.false_eq_true, if_false, Option.isSome_none] at h
    simp at h

end Confuse
