import Confuse.Props.C12
/-!
# Frame locality of the token machine

`liftM m rest` puts the frames `rest` underneath the stack of `m` (for a machine that has stopped,
the unwinding `goto error` writes its root back through `rest`).  `pstep_lift`: a step of the
machine on the deeper stack is the lifted step of the machine on the shallow stack, for every
token except a `}` that would pop the shallow stack's last frame.  So what a parse does while it
is inside a section never depends on, and never touches, the enclosing frames.
-/
namespace Confuse

def liftM (m : PM) (rest : List Frame) : PM :=
  if m.status = .running then
    { m with frames := m.frames ++ rest, maxDepth := m.maxDepth + rest.length }
  else
    { m with frames := (collapse (m.frames ++ rest)).toList, maxDepth := m.maxDepth + rest.length }

theorem collapseInto_append (c : Frame) (a b : List Frame) :
    collapseInto (collapseInto c a) b = collapseInto c (a ++ b) := by
  induction a generalizing c with
  | nil => rfl
  | cons p ps ih => simp [collapseInto, ih]

@[simp] theorem liftM_nil_running (m : PM) (h : m.status = .running) : liftM m [] = m := by
  cases m; simp_all [liftM]

theorem liftM_running (m : PM) (rest : List Frame) (h : m.status = .running) :
    liftM m rest = { m with frames := m.frames ++ rest, maxDepth := m.maxDepth + rest.length } := by
  simp [liftM, h]

@[simp] theorem liftM_status (m : PM) (rest : List Frame) : (liftM m rest).status = m.status := by
  unfold liftM; split <;> rfl

@[simp] theorem liftM_k (m : PM) (rest : List Frame) : (liftM m rest).k = m.k := by
  unfold liftM PM.k; split <;> rfl

/-- the lifted form of a rejection -/
theorem liftM_reject (m : PM) (f : Frame) (inner rest : List Frame) :
    liftM (m.reject f inner) rest =
      ({ m with maxDepth := m.maxDepth + rest.length } : PM).reject f (inner ++ rest) := by
  simp [liftM, PM.reject, collapse, collapseInto_append]

theorem liftM_rejectWith (m : PM) (f : Frame) (inner rest : List Frame) (c : DiagCls) :
    liftM (m.rejectWith f inner c) rest =
      ({ m with maxDepth := m.maxDepth + rest.length } : PM).rejectWith f (inner ++ rest) c := by
  simp [PM.rejectWith, liftM_reject, PM.addDiags]

end Confuse

namespace Confuse

/-- the deeper machine: same logs, `rest` underneath -/
abbrev deep (m : PM) (f : Frame) (inner rest : List Frame) : PM :=
  { m with frames := f :: (inner ++ rest), maxDepth := m.maxDepth + rest.length }
abbrev shallow (m : PM) (f : Frame) (inner : List Frame) : PM := { m with frames := f :: inner }

macro "lift_simp" : tactic =>
  `(tactic| simp [liftM, PM.reject, PM.rejectWith, PM.addDiags, PM.addCalls, collapse, collapseInto_append, *])

theorem step_s1_lift (orc : Oracle) (m : PM) (f : Frame) (inner rest : List Frame) (tok : Tok) (hrun : m.status = .running) :
    step_s1 orc (deep m f inner rest) f (inner ++ rest) tok = liftM (step_s1 orc (shallow m f inner) f inner tok) rest := by
  unfold step_s1
  split
  · lift_simp
  · split
    · lift_simp
    · cases tok <;> lift_simp
      all_goals (split <;> lift_simp)


/-- the verdict of the validation callback of the frame's current option: `none` = vetoed,
`some calls` = the invocations to log -/
def validVerdict (orc : Oracle) (k : Nat) (f : Frame) : Option (List CbCall) :=
  match f.opt with
  | some r =>
    (match f.cfg.getOpt r with
     | some o =>
       if o.info.validCb then
         (if orc k (CbCall.valid o.name (o.vals.map Val.snap)) = .fail then none
          else some [CbCall.valid o.name (o.vals.map Val.snap)])
       else some []
     | none => some [])
  | none => some []

theorem addCalls_nil (m : PM) : m.addCalls [] = m := by
  cases m; simp [PM.addCalls]

theorem runValid_spec (orc : Oracle) (m : PM) (f : Frame) :
    runValid orc m f = (validVerdict orc m.k f).map m.addCalls := by
  unfold runValid validVerdict
  cases hopt : f.opt with
  | none => simp [addCalls_nil]
  | some r =>
    cases hget : f.cfg.getOpt r with
    | none => simp [hget, addCalls_nil]
    | some o =>
      by_cases h1 : o.info.validCb = true
      · by_cases h2 : orc m.k (CbCall.valid o.name (o.vals.map Val.snap)) = .fail <;> simp [hget, h1, h2]
      · simp [hget, h1, addCalls_nil]

theorem runValid_frames (orc : Oracle) (m m' : PM) (f : Frame) (h : runValid orc m f = some m') :
    m'.frames = m.frames ∧ m'.status = m.status ∧ m'.maxDepth = m.maxDepth := by
  rw [runValid_spec] at h
  cases hv : validVerdict orc m.k f with
  | none => simp [hv] at h
  | some cs => simp [hv] at h; subst h; simp [PM.addCalls]

theorem storeValue_lift (orc : Oracle) (m : PM) (f0 f : Frame) (inner rest : List Frame) (v : Bytes) (next : PState) (hrun : m.status = .running) :
    storeValue orc (deep m f0 inner rest) f (inner ++ rest) v next = liftM (storeValue orc (shallow m f0 inner) f inner v next) rest := by
  unfold storeValue
  cases hopt : f.opt with
  | none => lift_simp
  | some r =>
    cases hget : f.cfg.getOpt r with
    | none => lift_simp
    | some o =>
      have hk : (deep m f0 inner rest).k = m.trace.length := rfl
      have hk' : (shallow m f0 inner).k = m.trace.length := rfl
      simp only [hget, hk, hk']
      generalize setopt orc m.trace.length f.cfg.info o (some v) = out
      cases hres : out.res with
      | none => lift_simp
      | some i =>
        simp only [runValid_spec, PM.k, PM.addCalls, PM.addDiags]
        cases hv : validVerdict orc (out.calls.reverse ++ m.trace).length { f with cfg := f.cfg.setOpt r out.opt, opt := some r } with
        | none =>
          simp only [Option.map_none]
          unfold vetoed
          repeat' split
          all_goals lift_simp
        | some cs => lift_simp

theorem callFunction_lift (orc : Oracle) (m : PM) (f0 f : Frame) (inner rest : List Frame) (hrun : m.status = .running) :
    callFunction orc (deep m f0 inner rest) f (inner ++ rest) = liftM (callFunction orc (shallow m f0 inner) f inner) rest := by
  unfold callFunction
  cases hopt : f.opt with
  | none => lift_simp
  | some r =>
    cases hget : f.cfg.getOpt r with
    | none => lift_simp
    | some o =>
      have hk : (deep m f0 inner rest).k = m.trace.length := rfl
      have hk' : (shallow m f0 inner).k = m.trace.length := rfl
      simp only [hget, hk, hk']
      cases hfn : o.info.func with
      | none => lift_simp
      | incl =>
        simp only []
        split <;> lift_simp
      | user =>
        simp only []
        split <;> lift_simp

theorem step_s2_lift (orc : Oracle) (m : PM) (f : Frame) (inner rest : List Frame) (tok : Tok) (hrun : m.status = .running) :
    step_s2 orc (deep m f inner rest) f (inner ++ rest) tok = liftM (step_s2 orc (shallow m f inner) f inner tok) rest := by
  unfold step_s2
  cases tok with
  | str v => exact storeValue_lift orc m f f inner rest v _ hrun
  | rbrace =>
    simp only []
    repeat' split
    all_goals lift_simp
  | _ => lift_simp

theorem step_s3_lift (orc : Oracle) (m : PM) (f : Frame) (inner rest : List Frame) (tok : Tok) (hrun : m.status = .running) :
    step_s3 orc (deep m f inner rest) f (inner ++ rest) tok = liftM (step_s3 orc (shallow m f inner) f inner tok) rest := by
  unfold step_s3
  cases tok with
  | str v => exact storeValue_lift orc m f f inner rest v _ hrun
  | _ => lift_simp

theorem step_s4_lift (orc : Oracle) (m : PM) (f : Frame) (inner rest : List Frame) (tok : Tok) (hrun : m.status = .running) :
    step_s4 orc (deep m f inner rest) f (inner ++ rest) tok = liftM (step_s4 orc (shallow m f inner) f inner tok) rest := by
  unfold step_s4
  cases tok with
  | rbrace =>
    have hk : (deep m f inner rest).k = m.trace.length := rfl
    have hk' : (shallow m f inner).k = m.trace.length := rfl
    simp only [runValid_spec, hk, hk']
    cases hv : validVerdict orc m.trace.length f with
    | none =>
      simp only [Option.map_none]
      unfold vetoed
      repeat' split
      all_goals lift_simp
    | some cs => lift_simp
  | _ => lift_simp

theorem step_s6_lift (orc : Oracle) (m : PM) (f : Frame) (inner rest : List Frame) (tok : Tok) (hrun : m.status = .running) :
    step_s6 orc (deep m f inner rest) f (inner ++ rest) tok = liftM (step_s6 orc (shallow m f inner) f inner tok) rest := by
  unfold step_s6
  repeat' split
  all_goals lift_simp

theorem step_s7_lift (orc : Oracle) (m : PM) (f : Frame) (inner rest : List Frame) (tok : Tok) (hrun : m.status = .running) :
    step_s7 orc (deep m f inner rest) f (inner ++ rest) tok = liftM (step_s7 orc (shallow m f inner) f inner tok) rest := by
  unfold step_s7
  repeat' split
  all_goals lift_simp

theorem step_s8_lift (orc : Oracle) (m : PM) (f : Frame) (inner rest : List Frame) (tok : Tok) (hrun : m.status = .running) :
    step_s8 orc (deep m f inner rest) f (inner ++ rest) tok = liftM (step_s8 orc (shallow m f inner) f inner tok) rest := by
  unfold step_s8
  cases tok with
  | rparen => exact callFunction_lift orc m f f inner rest hrun
  | _ => lift_simp

theorem step_s9_lift (orc : Oracle) (m : PM) (f : Frame) (inner rest : List Frame) (tok : Tok) (hrun : m.status = .running) :
    step_s9 orc (deep m f inner rest) f (inner ++ rest) tok = liftM (step_s9 orc (shallow m f inner) f inner tok) rest := by
  unfold step_s9
  cases tok with
  | rparen => exact callFunction_lift orc m f f inner rest hrun
  | _ => lift_simp

theorem step_s10_lift (orc : Oracle) (m : PM) (f : Frame) (inner rest : List Frame) (tok : Tok) (hrun : m.status = .running) :
    step_s10 orc (deep m f inner rest) f (inner ++ rest) tok = liftM (step_s10 orc (shallow m f inner) f inner tok) rest := by
  unfold step_s10
  repeat' split
  all_goals lift_simp

theorem step_s11_lift (orc : Oracle) (m : PM) (f : Frame) (inner rest : List Frame) (tok : Tok) (hrun : m.status = .running) :
    step_s11 orc (deep m f inner rest) f (inner ++ rest) tok = liftM (step_s11 orc (shallow m f inner) f inner tok) rest := by
  unfold step_s11
  repeat' split
  all_goals lift_simp

theorem step_s12_lift (orc : Oracle) (m : PM) (f : Frame) (inner rest : List Frame) (tok : Tok) (hrun : m.status = .running) :
    step_s12 orc (deep m f inner rest) f (inner ++ rest) tok = liftM (step_s12 orc (shallow m f inner) f inner tok) rest := by
  unfold step_s12
  repeat' split
  all_goals lift_simp

theorem step_s13_lift (orc : Oracle) (m : PM) (f : Frame) (inner rest : List Frame) (tok : Tok) (hrun : m.status = .running) :
    step_s13 orc (deep m f inner rest) f (inner ++ rest) tok = liftM (step_s13 orc (shallow m f inner) f inner tok) rest := by
  unfold step_s13
  repeat' split
  all_goals lift_simp

theorem step_s14_lift (orc : Oracle) (m : PM) (f : Frame) (inner rest : List Frame) (tok : Tok) (hrun : m.status = .running) :
    step_s14 orc (deep m f inner rest) f (inner ++ rest) tok = liftM (step_s14 orc (shallow m f inner) f inner tok) rest := by
  unfold step_s14
  repeat' split
  all_goals lift_simp


theorem step_s5_lift (orc : Oracle) (m : PM) (f : Frame) (inner rest : List Frame) (tok : Tok) (hrun : m.status = .running) :
    step_s5 orc (deep m f inner rest) f (inner ++ rest) tok = liftM (step_s5 orc (shallow m f inner) f inner tok) rest := by
  unfold step_s5
  cases tok with
  | lbrace =>
    simp only []
    cases hopt : f.opt with
    | none => lift_simp
    | some r =>
      cases hget : f.cfg.getOpt r with
      | none => lift_simp
      | some o =>
        have hk : (deep m f inner rest).k = m.trace.length := rfl
        have hk' : (shallow m f inner).k = m.trace.length := rfl
        simp only [Option.bind_some, hget, hk, hk']
        generalize setopt orc m.trace.length f.cfg.info o f.opttitle = out
        cases hres : out.res with
        | none => lift_simp
        | some i =>
          simp only []
          split
          · lift_simp
            omega
          · lift_simp
  | _ => lift_simp

/-- what `cfg_handle_deprecated` does, independent of the machine's logs -/
def depEffect (f : Frame) : List DiagCls × List CbCall × Frame :=
  match f.opt with
  | some r =>
    (match f.cfg.getOpt r with
     | some o =>
       if o.flags.deprecated then
         if o.flags.drop then ([.deprecatedDrop], (freeValue o).2, { f with cfg := f.cfg.setOpt r (freeValue o).1 })
         else ([.deprecatedKeep], [], f)
       else ([], [], f)
     | none => ([], [], f))
  | none => ([], [], f)

theorem handleDeprecated_spec (m : PM) (f : Frame) :
    handleDeprecated m f = (((m.addDiags f (depEffect f).1).addCalls (depEffect f).2.1), (depEffect f).2.2) := by
  unfold handleDeprecated depEffect
  cases hopt : f.opt with
  | none => simp [PM.addDiags, addCalls_nil]
  | some r =>
    cases hget : f.cfg.getOpt r with
    | none => simp [hget, PM.addDiags, addCalls_nil]
    | some o =>
      by_cases h1 : o.flags.deprecated = true
      · by_cases h2 : o.flags.drop = true <;> simp [hget, h1, h2, PM.addDiags, addCalls_nil]
      · simp [hget, h1, PM.addDiags, addCalls_nil]


theorem step_s0_lift (orc : Oracle) (m : PM) (f : Frame) (inner rest : List Frame) (tok : Tok) (hrun : m.status = .running)
    (hpop : ¬ (inner = [] ∧ tok = .rbrace)) :
    step_s0 orc (deep m f inner rest) f (inner ++ rest) tok = liftM (step_s0 orc (shallow m f inner) f inner tok) rest := by
  unfold step_s0
  simp only [handleDeprecated_spec]
  generalize depEffect f = e
  obtain ⟨ds, ev, f'⟩ := e
  simp only []
  cases tok with
  | rbrace =>
    cases inner with
    | nil => simp at hpop
    | cons p inner' =>
      simp only [List.cons_append]
      by_cases hl : (f'.level == 0) = true
      · simp only [hl, if_true]
        lift_simp
      · simp only [hl]
        simp only [runValid_spec, PM.k, PM.addCalls, PM.addDiags]
        generalize hp2 : ({ writeBack p f' with cfg := (writeBack p f').cfg.afterSection f'.cfg } : Frame) = p2
        cases hv : validVerdict orc (ev.reverse ++ m.trace).length p2 with
        | none =>
          simp only [Option.map_none]
          unfold vetoed
          repeat' split
          all_goals lift_simp
        | some cs => lift_simp
  | comment v => simp only []; split <;> lift_simp
  | str v =>
    simp only []
    generalize getoptPath f'.cfg v = gp
    cases hr : gp.ref with
    | none =>
      simp only []
      repeat' split
      all_goals lift_simp
    | some ref =>
      simp only []
      repeat' split
      all_goals lift_simp
  | _ => lift_simp


theorem liftM_deep (m : PM) (f : Frame) (inner rest : List Frame) (hrun : m.status = .running) (hfr : m.frames = f :: inner) :
    liftM m rest = deep m f inner rest := by
  simp [liftM, hrun, hfr]

theorem pstep_lift_aux (orc : Oracle) (m : PM) (f : Frame) (inner rest : List Frame) (tok : Tok) (nl : Nat)
    (hrun : m.status = .running) (hfr : m.frames = f :: inner) (hin : tok.inner = true)
    (hnc : (match tok with | .comment _ => true | _ => false) = false ∨ f.state = .s0)
    (hpop : ¬ (inner = [] ∧ f.state = .s0 ∧ tok = .rbrace)) :
    pstep orc (deep m f inner rest) tok nl = liftM (pstep orc m tok nl) rest := by
  rw [pstep_running orc m f inner tok nl hrun hfr hin hnc]
  rw [pstep_running orc (deep m f inner rest) f (inner ++ rest) tok nl hrun rfl hin hnc]
  cases hs : f.state with
  | s0 =>
    simp only []
    exact step_s0_lift orc m (f.addLine nl) inner rest tok hrun (by
      intro ⟨h1, h2⟩; exact hpop ⟨h1, hs, h2⟩)
  | s1 => exact step_s1_lift orc m (f.addLine nl) inner rest tok hrun
  | s2 => exact step_s2_lift orc m (f.addLine nl) inner rest tok hrun
  | s3 => exact step_s3_lift orc m (f.addLine nl) inner rest tok hrun
  | s4 => exact step_s4_lift orc m (f.addLine nl) inner rest tok hrun
  | s5 => exact step_s5_lift orc m (f.addLine nl) inner rest tok hrun
  | s6 => exact step_s6_lift orc m (f.addLine nl) inner rest tok hrun
  | s7 => exact step_s7_lift orc m (f.addLine nl) inner rest tok hrun
  | s8 => exact step_s8_lift orc m (f.addLine nl) inner rest tok hrun
  | s9 => exact step_s9_lift orc m (f.addLine nl) inner rest tok hrun
  | s10 => exact step_s10_lift orc m (f.addLine nl) inner rest tok hrun
  | s11 => exact step_s11_lift orc m (f.addLine nl) inner rest tok hrun
  | s12 => exact step_s12_lift orc m (f.addLine nl) inner rest tok hrun
  | s13 => exact step_s13_lift orc m (f.addLine nl) inner rest tok hrun
  | s14 => exact step_s14_lift orc m (f.addLine nl) inner rest tok hrun

/-- **Frame locality.** A step of the machine with the frames `rest` underneath is the lifted step of
the machine without them — for every token but a `}` that pops the last frame of the shallow stack. -/
theorem pstep_lift (orc : Oracle) (m : PM) (f : Frame) (inner rest : List Frame) (tok : Tok) (nl : Nat)
    (hrun : m.status = .running) (hfr : m.frames = f :: inner) (hin : tok.inner = true)
    (hpop : ¬ (inner = [] ∧ f.state = .s0 ∧ tok = .rbrace)) :
    pstep orc (liftM m rest) tok nl = liftM (pstep orc m tok nl) rest := by
  rw [liftM_deep m f inner rest hrun hfr]
  cases tok with
  | comment v =>
    by_cases hs0 : f.state = .s0
    · exact pstep_lift_aux orc m f inner rest _ nl hrun hfr hin (Or.inr hs0) hpop
    · rw [pstep_comment_skip orc m f inner v nl hrun hfr hs0]
      rw [pstep_comment_skip orc (deep m f inner rest) f (inner ++ rest) v nl hrun rfl hs0]
      simp [liftM, hrun]
  | eof => simp [Tok.inner] at hin
  | err e => simp [Tok.inner] at hin
  | str v => exact pstep_lift_aux orc m f inner rest _ nl hrun hfr hin (Or.inl rfl) hpop
  | lbrace => exact pstep_lift_aux orc m f inner rest _ nl hrun hfr hin (Or.inl rfl) hpop
  | rbrace => exact pstep_lift_aux orc m f inner rest _ nl hrun hfr hin (Or.inl rfl) hpop
  | lparen => exact pstep_lift_aux orc m f inner rest _ nl hrun hfr hin (Or.inl rfl) hpop
  | rparen => exact pstep_lift_aux orc m f inner rest _ nl hrun hfr hin (Or.inl rfl) hpop
  | eq => exact pstep_lift_aux orc m f inner rest _ nl hrun hfr hin (Or.inl rfl) hpop
  | pluseq => exact pstep_lift_aux orc m f inner rest _ nl hrun hfr hin (Or.inl rfl) hpop
  | comma => exact pstep_lift_aux orc m f inner rest _ nl hrun hfr hin (Or.inl rfl) hpop

end Confuse
