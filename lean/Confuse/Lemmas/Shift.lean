import Confuse.Lemmas.Splice
/-!
# The line counter is only an accumulator

Starting the scanner with a different line count changes nothing but the count it returns.
-/
namespace Confuse

def LexOut.bump (o : LexOut) (k : Nat) : LexOut := { o with nl := o.nl + k }
def DqSt.bump (s : DqSt) (k : Nat) : DqSt := { s with nl := s.nl + k }

def sumBump (x : DqSt ⊕ LexOut) (k : Nat) : DqSt ⊕ LexOut :=
  match x with
  | .inl s => .inl (s.bump k)
  | .inr o => .inr (o.bump k)

theorem dqPlain_bump (acc : Bytes) (nl k c : Nat) (cs : Bytes) :
    dqPlain acc (nl + k) c cs = sumBump (dqPlain acc nl c cs) k := by
  unfold dqPlain
  repeat' split
  all_goals simp [sumBump, LexOut.bump, DqSt.bump, Nat.add_right_comm]

theorem dqStep_bump (env : Env) (s : DqSt) (k c : Nat) (cs : Bytes) :
    dqStep env (s.bump k) c cs = sumBump (dqStep env s c cs) k := by
  unfold dqStep
  have hm : (s.bump k).mode = s.mode := rfl
  have ha : (s.bump k).acc = s.acc := rfl
  have hn : (s.bump k).nl = s.nl + k := rfl
  rw [hm, ha, hn]
  cases s.mode with
  | plain => exact dqPlain_bump _ _ _ _ _
  | envOpen => simp [sumBump, DqSt.bump]
  | env i => simp only []; split <;> simp [sumBump, DqSt.bump] <;> split <;> omega
  | esc =>
    simp only []
    repeat' split
    all_goals simp [sumBump, DqSt.bump, Nat.add_right_comm]
  | hex0 => simp only []; split; simp [sumBump, DqSt.bump]; exact dqPlain_bump _ _ _ _ _
  | hex1 v => simp only []; split; simp [sumBump, DqSt.bump]; exact dqPlain_bump _ _ _ _ _
  | digits n ao v =>
    simp only []
    split
    · simp [sumBump, DqSt.bump]
    · split
      · exact dqPlain_bump _ _ _ _ _
      · simp [sumBump, LexOut.bump]

theorem dqEof_bump (s : DqSt) (k : Nat) : dqEof (s.bump k) = (dqEof s).bump k := by
  unfold dqEof
  have hm : (s.bump k).mode = s.mode := rfl
  rw [hm]
  repeat' split
  all_goals simp_all [LexOut.bump, DqSt.bump]

theorem dqRun_bump (env : Env) (k : Nat) : ∀ (x : Bytes) (s : DqSt), dqRun env (s.bump k) x = (dqRun env s x).bump k := by
  intro x
  induction x with
  | nil => intro s; simp [dqRun, dqEof_bump]
  | cons c cs ih =>
    intro s
    simp only [dqRun, dqStep_bump]
    cases dqStep env s c cs with
    | inl s' => simp only [sumBump]; exact ih s'
    | inr o => rfl

theorem sqRun_bump (k : Nat) : ∀ (x : Bytes) (mode : SqMode) (acc : Bytes) (nl : Nat),
    sqRun mode acc (nl + k) x = (sqRun mode acc nl x).bump k := by
  intro x
  induction x with
  | nil => intro mode acc nl; cases mode <;> simp [sqRun, LexOut.bump]
  | cons c cs ih =>
    intro mode acc nl
    cases mode <;> simp only [sqRun] <;> repeat' split
    all_goals first
      | exact ih _ _ _
      | (rw [Nat.add_right_comm]; exact ih _ _ _)
      | simp [LexOut.bump]

theorem commentRun_bump (k : Nat) : ∀ (x acc : Bytes) (nl : Nat), commentRun acc (nl + k) x = (commentRun acc nl x).bump k := by
  intro x
  induction x with
  | nil => intro acc nl; simp [commentRun, LexOut.bump]
  | cons c cs ih =>
    intro acc nl
    simp only [commentRun]
    repeat' split
    all_goals first
      | exact ih _ _
      | (rw [Nat.add_right_comm]; exact ih _ _)
      | simp [LexOut.bump]

/-- **Shift.** -/
theorem lexInitial_bump (env : Env) (k : Nat) : ∀ (x : Bytes) (nl : Nat), lexInitial env (nl + k) x = (lexInitial env nl x).bump k := by
  intro x
  induction x with
  | nil => intro nl; simp [lexInitial, LexOut.bump]
  | cons c cs ih =>
    intro nl
    simp only [lexInitial, Bool.or_eq_true, decide_eq_true_eq]
    by_cases h1 : c = c_sp ∨ c = c_tab
    · simp only [h1, if_true]; exact ih _
    · simp only [h1, if_false]
      by_cases h2 : c = c_nl
      · simp only [h2, if_true]; rw [Nat.add_right_comm]; exact ih _
      · simp only [h2, if_false]
        by_cases h3 : c = c_hash
        · simp [h3, lineComment, LexOut.bump]
        · simp only [h3, if_false]
          by_cases h4 : c = c_slash
          · simp only [h4, if_true]
            cases cs with
            | nil => simp [lexWord, LexOut.bump]
            | cons d ds =>
              simp only []
              by_cases hd1 : d = c_slash
              · simp [hd1, lineComment, LexOut.bump]
              · simp only [hd1, if_false]
                by_cases hd2 : d = c_star
                · simp only [hd2, if_true]; exact commentRun_bump k _ _ _
                · simp [hd2, lexWord, LexOut.bump]
          · simp only [h4, if_false]
            by_cases h5 : c = c_lbr
            · simp [h5, LexOut.bump]
            · simp only [h5, if_false]
              by_cases h6 : c = c_rbr
              · simp [h6, LexOut.bump]
              · simp only [h6, if_false]
                by_cases h7 : c = c_lp
                · simp [h7, LexOut.bump]
                · simp only [h7, if_false]
                  by_cases h8 : c = c_rp
                  · simp [h8, LexOut.bump]
                  · simp only [h8, if_false]
                    by_cases h9 : c = c_eq
                    · simp [h9, LexOut.bump]
                    · simp only [h9, if_false]
                      by_cases h10 : c = c_comma
                      · simp [h10, LexOut.bump]
                      · simp only [h10, if_false]
                        by_cases h11 : c = c_plus
                        · simp only [h11, if_true]
                          cases cs with
                          | nil => exact ih _
                          | cons d ds =>
                            simp only []
                            by_cases hd : d = c_eq
                            · simp [hd, LexOut.bump]
                            · simp only [hd, if_false]; exact ih _
                        · simp only [h11, if_false]
                          by_cases h12 : c = c_dq
                          · simp only [h12, if_true]; exact dqRun_bump env k _ ⟨.plain, [], nl⟩
                          · simp only [h12, if_false]
                            by_cases h13 : c = c_sq
                            · simp only [h13, if_true]; exact sqRun_bump k _ _ _ _
                            · simp only [h13, if_false]
                              by_cases h14 : c = c_dollar
                              · simp only [h14, if_true]
                                cases cs with
                                | nil => simp [lexWord, LexOut.bump]
                                | cons d ds =>
                                  simp only []
                                  split <;> simp [lexWord, LexOut.bump, Nat.add_right_comm]
                              · simp only [h14, if_false]
                                split
                                · simp [lexWord, LexOut.bump]
                                · exact ih _

theorem lexInitial_tok_rest (env : Env) (x : Bytes) (nl : Nat) :
    (lexInitial env nl x).tok = (lexInitial env 0 x).tok ∧ (lexInitial env nl x).rest = (lexInitial env 0 x).rest := by
  have := lexInitial_bump env nl x 0
  rw [Nat.zero_add] at this
  rw [this]
  exact ⟨rfl, rfl⟩

end Confuse
