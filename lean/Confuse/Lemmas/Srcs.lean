import Confuse.Lemmas.Quiet
/-!
# The token machine neither reads nor writes the source stack
-/
namespace Confuse

def setSrcs (m : PM) (s : List Src) : PM := { m with srcs := s }

@[simp] theorem setSrcs_k (m : PM) (s : List Src) : (setSrcs m s).k = m.k := rfl
@[simp] theorem setSrcs_status (m : PM) (s : List Src) : (setSrcs m s).status = m.status := rfl
@[simp] theorem setSrcs_frames (m : PM) (s : List Src) : (setSrcs m s).frames = m.frames := rfl
@[simp] theorem setSrcs_srcs (m : PM) (s : List Src) : (setSrcs m s).srcs = s := rfl
@[simp] theorem setSrcs_addDiags (m : PM) (s : List Src) (f : Frame) (cs : List DiagCls) : (setSrcs m s).addDiags f cs = setSrcs (m.addDiags f cs) s := rfl
@[simp] theorem setSrcs_addCalls (m : PM) (s : List Src) (cs : List CbCall) : (setSrcs m s).addCalls cs = setSrcs (m.addCalls cs) s := rfl
@[simp] theorem setSrcs_reject (m : PM) (s : List Src) (f : Frame) (rest : List Frame) : (setSrcs m s).reject f rest = setSrcs (m.reject f rest) s := by
  simp [PM.reject, collapse, setSrcs]
@[simp] theorem setSrcs_rejectWith (m : PM) (s : List Src) (f : Frame) (rest : List Frame) (c : DiagCls) :
    (setSrcs m s).rejectWith f rest c = setSrcs (m.rejectWith f rest c) s := by
  simp [PM.rejectWith]
@[simp] theorem setSrcs_withFrames (m : PM) (s : List Src) (fs : List Frame) : ({ setSrcs m s with frames := fs } : PM) = setSrcs { m with frames := fs } s := rfl

theorem vetoed_srcs (orc : Oracle) (m : PM) (s : List Src) (f : Frame) : vetoed orc (setSrcs m s) f = setSrcs (vetoed orc m f) s := by
  unfold vetoed
  repeat' split
  all_goals rfl

macro "srcs_auto" : tactic =>
  `(tactic| (try simp only []
             repeat' (split <;> try simp only [])
             all_goals first
               | rfl
               | (simp only [setSrcs_reject, setSrcs_rejectWith, setSrcs_addDiags, setSrcs_addCalls, vetoed_srcs]; rfl)
               | simp_all [setSrcs, PM.reject, PM.rejectWith, PM.addDiags, PM.addCalls, collapse]))

theorem storeValue_srcs (orc : Oracle) (m : PM) (s : List Src) (f : Frame) (rest : List Frame) (v : Bytes) (next : PState) :
    storeValue orc (setSrcs m s) f rest v next = setSrcs (storeValue orc m f rest v next) s := by
  unfold storeValue
  simp only [runValid_spec, setSrcs_k, setSrcs_addCalls, setSrcs_addDiags]
  cases f.opt with
  | none => simp
  | some r =>
    simp only []
    cases f.cfg.getOpt r with
    | none => simp
    | some o =>
      simp only []
      generalize setopt orc m.k f.cfg.info o (some v) = out
      cases out.res with
      | none => simp
      | some i =>
        simp only [setSrcs_k]
        cases validVerdict orc ((m.addCalls out.calls).addDiags { f with cfg := f.cfg.setOpt r out.opt, opt := some r } out.diags).k { f with cfg := f.cfg.setOpt r out.opt, opt := some r } with
        | none => simp [vetoed_srcs]
        | some cs => simp; rfl

theorem callFunction_srcs (orc : Oracle) (m : PM) (s : List Src) (f : Frame) (rest : List Frame) :
    callFunction orc (setSrcs m s) f rest = setSrcs (callFunction orc m f rest) s := by
  unfold callFunction
  simp only [setSrcs_k]
  srcs_auto

theorem step_s1_srcs (orc : Oracle) (m : PM) (s : List Src) (f : Frame) (rest : List Frame) (tok : Tok) :
    step_s1 orc (setSrcs m s) f rest tok = setSrcs (step_s1 orc m f rest tok) s := by
  unfold step_s1
  srcs_auto

theorem step_s6_srcs (orc : Oracle) (m : PM) (s : List Src) (f : Frame) (rest : List Frame) (tok : Tok) :
    step_s6 orc (setSrcs m s) f rest tok = setSrcs (step_s6 orc m f rest tok) s := by
  unfold step_s6
  srcs_auto

theorem step_s7_srcs (orc : Oracle) (m : PM) (s : List Src) (f : Frame) (rest : List Frame) (tok : Tok) :
    step_s7 orc (setSrcs m s) f rest tok = setSrcs (step_s7 orc m f rest tok) s := by
  unfold step_s7
  srcs_auto

theorem step_s10_srcs (orc : Oracle) (m : PM) (s : List Src) (f : Frame) (rest : List Frame) (tok : Tok) :
    step_s10 orc (setSrcs m s) f rest tok = setSrcs (step_s10 orc m f rest tok) s := by
  unfold step_s10
  srcs_auto

theorem step_s11_srcs (orc : Oracle) (m : PM) (s : List Src) (f : Frame) (rest : List Frame) (tok : Tok) :
    step_s11 orc (setSrcs m s) f rest tok = setSrcs (step_s11 orc m f rest tok) s := by
  unfold step_s11
  srcs_auto

theorem step_s12_srcs (orc : Oracle) (m : PM) (s : List Src) (f : Frame) (rest : List Frame) (tok : Tok) :
    step_s12 orc (setSrcs m s) f rest tok = setSrcs (step_s12 orc m f rest tok) s := by
  unfold step_s12
  srcs_auto

theorem step_s13_srcs (orc : Oracle) (m : PM) (s : List Src) (f : Frame) (rest : List Frame) (tok : Tok) :
    step_s13 orc (setSrcs m s) f rest tok = setSrcs (step_s13 orc m f rest tok) s := by
  unfold step_s13
  srcs_auto

theorem step_s14_srcs (orc : Oracle) (m : PM) (s : List Src) (f : Frame) (rest : List Frame) (tok : Tok) :
    step_s14 orc (setSrcs m s) f rest tok = setSrcs (step_s14 orc m f rest tok) s := by
  unfold step_s14
  srcs_auto

theorem step_s2_srcs (orc : Oracle) (m : PM) (s : List Src) (f : Frame) (rest : List Frame) (tok : Tok) :
    step_s2 orc (setSrcs m s) f rest tok = setSrcs (step_s2 orc m f rest tok) s := by
  unfold step_s2
  cases tok with
  | str v => exact storeValue_srcs _ _ _ _ _ _ _
  | _ => srcs_auto

theorem step_s3_srcs (orc : Oracle) (m : PM) (s : List Src) (f : Frame) (rest : List Frame) (tok : Tok) :
    step_s3 orc (setSrcs m s) f rest tok = setSrcs (step_s3 orc m f rest tok) s := by
  unfold step_s3
  cases tok with
  | str v => exact storeValue_srcs _ _ _ _ _ _ _
  | _ => srcs_auto

theorem step_s8_srcs (orc : Oracle) (m : PM) (s : List Src) (f : Frame) (rest : List Frame) (tok : Tok) :
    step_s8 orc (setSrcs m s) f rest tok = setSrcs (step_s8 orc m f rest tok) s := by
  unfold step_s8
  cases tok with
  | rparen => exact callFunction_srcs _ _ _ _ _
  | _ => srcs_auto

theorem step_s9_srcs (orc : Oracle) (m : PM) (s : List Src) (f : Frame) (rest : List Frame) (tok : Tok) :
    step_s9 orc (setSrcs m s) f rest tok = setSrcs (step_s9 orc m f rest tok) s := by
  unfold step_s9
  cases tok with
  | rparen => exact callFunction_srcs _ _ _ _ _
  | _ => srcs_auto

theorem step_s4_srcs (orc : Oracle) (m : PM) (s : List Src) (f : Frame) (rest : List Frame) (tok : Tok) :
    step_s4 orc (setSrcs m s) f rest tok = setSrcs (step_s4 orc m f rest tok) s := by
  unfold step_s4
  cases tok with
  | rbrace =>
    simp only [runValid_spec, setSrcs_k]
    cases validVerdict orc m.k f with
    | none => simp [vetoed_srcs]
    | some cs => rfl
  | _ => srcs_auto

theorem step_s5_srcs (orc : Oracle) (m : PM) (s : List Src) (f : Frame) (rest : List Frame) (tok : Tok) :
    step_s5 orc (setSrcs m s) f rest tok = setSrcs (step_s5 orc m f rest tok) s := by
  unfold step_s5
  cases tok with
  | lbrace =>
    simp only [setSrcs_k]
    split
    · rename_i r o _ _
      generalize setopt orc m.k f.cfg.info o f.opttitle = out
      cases out.res with
      | none => simp
      | some i =>
        simp only []
        split
        · rfl
        · simp
    · simp
  | _ => srcs_auto

theorem step_s0_srcs (orc : Oracle) (m : PM) (s : List Src) (f : Frame) (rest : List Frame) (tok : Tok) :
    step_s0 orc (setSrcs m s) f rest tok = setSrcs (step_s0 orc m f rest tok) s := by
  unfold step_s0
  simp only [handleDeprecated_spec, setSrcs_addDiags, setSrcs_addCalls]
  generalize depEffect f = e
  obtain ⟨ds, ev, f'⟩ := e
  simp only []
  generalize (m.addDiags f ds).addCalls ev = m0
  cases tok with
  | rbrace =>
    cases rest with
    | nil => simp
    | cons p rest' =>
      simp only []
      split
      · simp
      · simp only [runValid_spec, setSrcs_k]
        cases validVerdict orc m0.k _ with
        | none => simp [vetoed_srcs]
        | some cs => rfl
  | comment v => simp only []; split <;> rfl
  | str v =>
    simp only []
    generalize getoptPath f'.cfg v = gp
    cases gp.ref with
    | none =>
      simp only []
      repeat' split
      all_goals first | rfl | simp
    | some ref =>
      simp only []
      cases f'.cfg.getOpt ref with
      | none => simp
      | some o => rfl
  | _ => simp

theorem dispatch_srcs (orc : Oracle) (m : PM) (s : List Src) (f : Frame) (rest : List Frame) (tok : Tok) (nl : Nat) :
    (match f.state with
      | .s0 => step_s0 orc { setSrcs m s with frames := f.addLine nl :: rest } (f.addLine nl) rest tok
      | .s1 => step_s1 orc { setSrcs m s with frames := f.addLine nl :: rest } (f.addLine nl) rest tok
      | .s2 => step_s2 orc { setSrcs m s with frames := f.addLine nl :: rest } (f.addLine nl) rest tok
      | .s3 => step_s3 orc { setSrcs m s with frames := f.addLine nl :: rest } (f.addLine nl) rest tok
      | .s4 => step_s4 orc { setSrcs m s with frames := f.addLine nl :: rest } (f.addLine nl) rest tok
      | .s5 => step_s5 orc { setSrcs m s with frames := f.addLine nl :: rest } (f.addLine nl) rest tok
      | .s6 => step_s6 orc { setSrcs m s with frames := f.addLine nl :: rest } (f.addLine nl) rest tok
      | .s7 => step_s7 orc { setSrcs m s with frames := f.addLine nl :: rest } (f.addLine nl) rest tok
      | .s8 => step_s8 orc { setSrcs m s with frames := f.addLine nl :: rest } (f.addLine nl) rest tok
      | .s9 => step_s9 orc { setSrcs m s with frames := f.addLine nl :: rest } (f.addLine nl) rest tok
      | .s10 => step_s10 orc { setSrcs m s with frames := f.addLine nl :: rest } (f.addLine nl) rest tok
      | .s11 => step_s11 orc { setSrcs m s with frames := f.addLine nl :: rest } (f.addLine nl) rest tok
      | .s12 => step_s12 orc { setSrcs m s with frames := f.addLine nl :: rest } (f.addLine nl) rest tok
      | .s13 => step_s13 orc { setSrcs m s with frames := f.addLine nl :: rest } (f.addLine nl) rest tok
      | .s14 => step_s14 orc { setSrcs m s with frames := f.addLine nl :: rest } (f.addLine nl) rest tok) =
    setSrcs (match f.state with
      | .s0 => step_s0 orc { m with frames := f.addLine nl :: rest } (f.addLine nl) rest tok
      | .s1 => step_s1 orc { m with frames := f.addLine nl :: rest } (f.addLine nl) rest tok
      | .s2 => step_s2 orc { m with frames := f.addLine nl :: rest } (f.addLine nl) rest tok
      | .s3 => step_s3 orc { m with frames := f.addLine nl :: rest } (f.addLine nl) rest tok
      | .s4 => step_s4 orc { m with frames := f.addLine nl :: rest } (f.addLine nl) rest tok
      | .s5 => step_s5 orc { m with frames := f.addLine nl :: rest } (f.addLine nl) rest tok
      | .s6 => step_s6 orc { m with frames := f.addLine nl :: rest } (f.addLine nl) rest tok
      | .s7 => step_s7 orc { m with frames := f.addLine nl :: rest } (f.addLine nl) rest tok
      | .s8 => step_s8 orc { m with frames := f.addLine nl :: rest } (f.addLine nl) rest tok
      | .s9 => step_s9 orc { m with frames := f.addLine nl :: rest } (f.addLine nl) rest tok
      | .s10 => step_s10 orc { m with frames := f.addLine nl :: rest } (f.addLine nl) rest tok
      | .s11 => step_s11 orc { m with frames := f.addLine nl :: rest } (f.addLine nl) rest tok
      | .s12 => step_s12 orc { m with frames := f.addLine nl :: rest } (f.addLine nl) rest tok
      | .s13 => step_s13 orc { m with frames := f.addLine nl :: rest } (f.addLine nl) rest tok
      | .s14 => step_s14 orc { m with frames := f.addLine nl :: rest } (f.addLine nl) rest tok) s := by
  simp only [setSrcs_withFrames]
  cases f.state with
  | s0 => exact step_s0_srcs _ _ _ _ _ _
  | s1 => exact step_s1_srcs _ _ _ _ _ _
  | s2 => exact step_s2_srcs _ _ _ _ _ _
  | s3 => exact step_s3_srcs _ _ _ _ _ _
  | s4 => exact step_s4_srcs _ _ _ _ _ _
  | s5 => exact step_s5_srcs _ _ _ _ _ _
  | s6 => exact step_s6_srcs _ _ _ _ _ _
  | s7 => exact step_s7_srcs _ _ _ _ _ _
  | s8 => exact step_s8_srcs _ _ _ _ _ _
  | s9 => exact step_s9_srcs _ _ _ _ _ _
  | s10 => exact step_s10_srcs _ _ _ _ _ _
  | s11 => exact step_s11_srcs _ _ _ _ _ _
  | s12 => exact step_s12_srcs _ _ _ _ _ _
  | s13 => exact step_s13_srcs _ _ _ _ _ _
  | s14 => exact step_s14_srcs _ _ _ _ _ _

/-- **The token machine neither reads nor writes the source stack.** -/
theorem pstep_srcs (orc : Oracle) (m : PM) (s : List Src) (tok : Tok) (nl : Nat) :
    pstep orc (setSrcs m s) tok nl = setSrcs (pstep orc m tok nl) s := by
  by_cases hrun : m.status = .running
  · have hrun' : (setSrcs m s).status = .running := hrun
    cases hfr : m.frames with
    | nil =>
      have h1 : pstep orc m tok nl = m := by unfold pstep; simp [hfr]
      have h2 : pstep orc (setSrcs m s) tok nl = setSrcs m s := by unfold pstep; simp [hfr]
      rw [h1, h2]
    | cons f rest =>
      have hfr' : (setSrcs m s).frames = f :: rest := hfr
      cases tok with
      | err e =>
        rw [pstep_err orc m f rest e nl hrun hfr, pstep_err orc _ f rest e nl hrun' hfr']
        simp only [setSrcs_withFrames, setSrcs_rejectWith]
      | eof =>
        rw [pstep_eof orc m f rest nl hrun hfr, pstep_eof orc _ f rest nl hrun' hfr']
        split
        · simp only [setSrcs_withFrames, setSrcs_rejectWith]
        · simp only [handleDeprecated_spec, setSrcs_withFrames, setSrcs_addDiags, setSrcs_addCalls]
          rfl
      | comment v =>
        by_cases hs0 : f.state = .s0
        · rw [pstep_running orc m f rest _ nl hrun hfr rfl (Or.inr hs0), pstep_running orc _ f rest _ nl hrun' hfr' rfl (Or.inr hs0)]
          exact dispatch_srcs orc m s f rest _ nl
        · rw [pstep_comment_skip orc m f rest v nl hrun hfr hs0, pstep_comment_skip orc _ f rest v nl hrun' hfr' hs0]
          rfl
      | str v => rw [pstep_running orc m f rest _ nl hrun hfr rfl (Or.inl rfl), pstep_running orc _ f rest _ nl hrun' hfr' rfl (Or.inl rfl)]; exact dispatch_srcs orc m s f rest _ nl
      | lbrace => rw [pstep_running orc m f rest _ nl hrun hfr rfl (Or.inl rfl), pstep_running orc _ f rest _ nl hrun' hfr' rfl (Or.inl rfl)]; exact dispatch_srcs orc m s f rest _ nl
      | rbrace => rw [pstep_running orc m f rest _ nl hrun hfr rfl (Or.inl rfl), pstep_running orc _ f rest _ nl hrun' hfr' rfl (Or.inl rfl)]; exact dispatch_srcs orc m s f rest _ nl
      | lparen => rw [pstep_running orc m f rest _ nl hrun hfr rfl (Or.inl rfl), pstep_running orc _ f rest _ nl hrun' hfr' rfl (Or.inl rfl)]; exact dispatch_srcs orc m s f rest _ nl
      | rparen => rw [pstep_running orc m f rest _ nl hrun hfr rfl (Or.inl rfl), pstep_running orc _ f rest _ nl hrun' hfr' rfl (Or.inl rfl)]; exact dispatch_srcs orc m s f rest _ nl
      | eq => rw [pstep_running orc m f rest _ nl hrun hfr rfl (Or.inl rfl), pstep_running orc _ f rest _ nl hrun' hfr' rfl (Or.inl rfl)]; exact dispatch_srcs orc m s f rest _ nl
      | pluseq => rw [pstep_running orc m f rest _ nl hrun hfr rfl (Or.inl rfl), pstep_running orc _ f rest _ nl hrun' hfr' rfl (Or.inl rfl)]; exact dispatch_srcs orc m s f rest _ nl
      | comma => rw [pstep_running orc m f rest _ nl hrun hfr rfl (Or.inl rfl), pstep_running orc _ f rest _ nl hrun' hfr' rfl (Or.inl rfl)]; exact dispatch_srcs orc m s f rest _ nl
  · rw [pstep_stopped orc m tok nl hrun, pstep_stopped orc (setSrcs m s) tok nl hrun]

theorem pstep_srcs_eq (orc : Oracle) (m : PM) (tok : Tok) (nl : Nat) : (pstep orc m tok nl).srcs = m.srcs := by
  have h := pstep_srcs orc m m.srcs tok nl
  have e : setSrcs m m.srcs = m := by cases m; rfl
  rw [e] at h
  rw [h]; rfl

end Confuse
