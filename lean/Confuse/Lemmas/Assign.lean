import Confuse.Props.C12
import Confuse.Spec.Items
import Confuse.Lemmas.Path
import Confuse.Props.C10
/-!
# Helper lemmas for item-level statements: lens laws with the line counter, the three tokens of an assignment
-/
namespace Confuse

theorem child_setLine (c : Cfg) (n oi ii : Nat) : (c.setLine n).child oi ii = c.child oi ii := by cases c; rfl
theorem setOpts_setLine (c : Cfg) (n : Nat) (os : List Opt) : (c.setLine n).setOpts os = (c.setOpts os).setLine n := by cases c; rfl
theorem opts_setLine (c : Cfg) (n : Nat) : (c.setLine n).opts = c.opts := by cases c; rfl
theorem setChild_setLine (c : Cfg) (n oi ii : Nat) (s : Cfg) : (c.setLine n).setChild oi ii s = (c.setChild oi ii s).setLine n := by
  unfold Cfg.setChild
  rw [opts_setLine]
  cases c.opts[oi]? <;> simp [setOpts_setLine]

theorem setOpt_setLine (c : Cfg) (n : Nat) (r : OptRef) (o : Opt) : (c.setLine n).setOpt r o = (c.setOpt r o).setLine n := by
  obtain ⟨steps, leaf⟩ := r
  cases steps with
  | nil =>
    simp only [Cfg.setOpt, updOptAt, opts_setLine]
    cases c.opts[leaf]? <;> simp [setOpts_setLine]
  | cons st rest =>
    obtain ⟨oi, ii⟩ := st
    simp only [Cfg.setOpt, updOptAt, child_setLine]
    cases c.child oi ii <;> simp [setChild_setLine]

theorem listSet_listSet {α} (l : List α) (i : Nat) (x y : α) : listSet (listSet l i x) i y = listSet l i y := by
  induction l generalizing i with
  | nil => rfl
  | cons a as ih => cases i <;> simp [listSet, ih]

theorem setOpts_setOpts (c : Cfg) (a b : List Opt) : (c.setOpts a).setOpts b = c.setOpts b := by cases c; rfl
theorem opts_setOpts (c : Cfg) (a : List Opt) : (c.setOpts a).opts = a := by cases c; rfl

theorem setChild_setChild (c : Cfg) (oi ii : Nat) (s s' : Cfg) : (c.setChild oi ii s).setChild oi ii s' = c.setChild oi ii s' := by
  unfold Cfg.setChild
  cases ho : c.opts[oi]? with
  | none => simp [ho]
  | some o =>
    simp only [opts_setOpts]
    rw [listSet_get _ _ _ (by simp [ho])]
    simp only [setOpts_setOpts, listSet_listSet]
    cases o
    simp [Opt.setVals, Opt.vals, listSet_listSet, Opt.info, Opt.flags, Opt.subs, Opt.comment]

/-- **put-put**: the later write wins -/
theorem updOptAt_updOptAt (a b : Opt) : ∀ (steps : List (Nat × Nat)) (c : Cfg) (leaf : Nat),
    updOptAt (fun _ => b) (updOptAt (fun _ => a) c steps leaf) steps leaf = updOptAt (fun _ => b) c steps leaf := by
  intro steps
  induction steps with
  | nil =>
    intro c leaf
    simp only [updOptAt]
    cases ho : c.opts[leaf]? with
    | none => simp [ho]
    | some o =>
      simp only [opts_setOpts]
      rw [listSet_get _ _ _ (by simp [ho])]
      simp [setOpts_setOpts, listSet_listSet]
  | cons st rest ih =>
    intro c leaf
    obtain ⟨oi, ii⟩ := st
    simp only [updOptAt]
    cases hc : c.child oi ii with
    | none => simp [hc]
    | some s =>
      simp only []
      rw [child_setChild c oi ii s _ hc]
      simp only [setChild_setChild, ih]

theorem setOpt_setOpt (c : Cfg) (r : OptRef) (a b : Opt) : (c.setOpt r a).setOpt r b = c.setOpt r b := by
  simp [Cfg.setOpt, updOptAt_updOptAt]

/-- "this assignment replaces": RESET and MODIFIED set, as the `=` token does -/
def Opt.markReplace (o : Opt) : Opt := o.setFlags { o.flags with reset := true, modified := true }

/-- the frame a scalar assignment `name = v` leaves behind (`L` = the line it ends on) -/
def assignFrame (orc : Oracle) (k : Nat) (f : Frame) (r : OptRef) (o : Opt) (v : Bytes) (L : Nat) : Frame :=
  let out := setopt orc k (f.cfg.setLine L).info o.markReplace (some v)
  { f with cfg := (f.cfg.setOpt r out.opt).setLine L, opt := some r, state := .s0, numValues := f.numValues + 1 }

@[simp] theorem addDiags_nil (m : PM) (f : Frame) : m.addDiags f [] = m := by cases m; rfl
attribute [local simp] addCalls_nil

theorem noPending_setLine (f : Frame) (n : Nat) (h : noPendingDeprecated f) :
    noPendingDeprecated { f with cfg := f.cfg.setLine n } := by
  intro r o hr ho
  simp only [getOpt_setLine] at ho
  exact h r o hr ho

/-- the name token of an item whose name resolves silently to a plain option -/
theorem pstep_name (orc : Oracle) (m : PM) (f : Frame) (rest : List Frame) (name : Bytes) (n1 : Nat) (r : OptRef) (o : Opt)
    (hrun : m.status = .running) (hfr : m.frames = f :: rest) (hst : f.state = .s0)
    (hnd : noPendingDeprecated f)
    (hres : (getoptPath f.cfg name).ref = some r) (hsil : (getoptPath f.cfg name).diags = [])
    (hget : f.cfg.getOpt r = some o) (hty : o.ty ≠ .sec ∧ o.ty ≠ .func) :
    pstep orc m (.str name) n1 =
      { m with frames := { f with cfg := f.cfg.setLine (f.cfg.line + n1), opt := some r, state := .s1 } :: rest } := by
  have hnd' := noPending_setLine f (f.cfg.line + n1) hnd
  obtain ⟨cfg, level, state, opt, comment, opttitle, funcargs, ignore, depth, numValues, back⟩ := f
  simp only at hst hres hsil hget hnd'
  subst hst
  unfold pstep
  simp only [hrun, hfr]
  simp only [step_s0]
  rw [handleDeprecated_id _ _ hnd']
  simp only [getoptPath_setLine, hres, hsil, addDiags_nil, getOpt_setLine, hget]
  have h1 : (o.ty == .sec) = false := by simpa using hty.1
  have h2 : (o.ty == .func) = false := by simpa using hty.2
  simp [h1, h2]

/-- the `=` token after the name of a plain (non-list) option -/
theorem pstep_eq_scalar (orc : Oracle) (m : PM) (f : Frame) (rest : List Frame) (n2 : Nat) (r : OptRef) (o : Opt)
    (hrun : m.status = .running) (hfr : m.frames = f :: rest) (hst : f.state = .s1) (hopt : f.opt = some r)
    (hget : f.cfg.getOpt r = some o) (hnl : o.flags.list = false) :
    pstep orc m .eq n2 =
      { m with frames := { f with cfg := (f.cfg.setLine (f.cfg.line + n2)).setOpt r o.markReplace,
                                  state := .s2 } :: rest } := by
  obtain ⟨cfg, level, state, opt, comment, opttitle, funcargs, ignore, depth, numValues, back⟩ := f
  simp only at hst hopt hget
  subst hst; subst hopt
  unfold pstep
  simp only [hrun, hfr]
  simp [step_s1, getOpt_setLine, hget, hnl, Opt.markReplace]

/-- the value token of a plain option that stores without callbacks or diagnostics -/
theorem pstep_value_scalar (orc : Oracle) (m : PM) (f : Frame) (rest : List Frame) (v : Bytes) (n3 : Nat) (r : OptRef) (o : Opt)
    (hrun : m.status = .running) (hfr : m.frames = f :: rest) (hst : f.state = .s2) (hopt : f.opt = some r)
    (hcm : f.comment = none)
    (hget : f.cfg.getOpt r = some o) (hnl : o.flags.list = false)
    (hok : (setopt orc m.k (f.cfg.setLine (f.cfg.line + n3)).info o (some v)).res.isSome = true)
    (hcalls : (setopt orc m.k (f.cfg.setLine (f.cfg.line + n3)).info o (some v)).calls = [])
    (hdiags : (setopt orc m.k (f.cfg.setLine (f.cfg.line + n3)).info o (some v)).diags = [])
    (hvc : (setopt orc m.k (f.cfg.setLine (f.cfg.line + n3)).info o (some v)).opt.info.validCb = false) :
    pstep orc m (.str v) n3 =
      { m with frames := { f with cfg := (f.cfg.setLine (f.cfg.line + n3)).setOpt r (setopt orc m.k (f.cfg.setLine (f.cfg.line + n3)).info o (some v)).opt,
                                  state := .s0, numValues := f.numValues + 1 } :: rest } := by
  obtain ⟨cfg, level, state, opt, comment, opttitle, funcargs, ignore, depth, numValues, back⟩ := f
  simp only at hst hopt hget hcm hok hcalls hdiags hvc
  subst hst; subst hopt; subst hcm
  unfold pstep
  simp only [hrun, hfr]
  simp only [step_s2, storeValue, getOpt_setLine, hget, Option.bind, hnl]
  simp only [PM.k] at hok hcalls hdiags hvc ⊢
  generalize setopt orc m.trace.length (cfg.setLine (cfg.line + n3)).info o (some v) = out at hok hcalls hdiags hvc ⊢
  obtain ⟨oo, res, dg, cl⟩ := out
  simp only at hok hcalls hdiags hvc
  subst hcalls; subst hdiags
  cases res with
  | none => simp at hok
  | some i =>
    have hg : ((cfg.setLine (cfg.line + n3)).setOpt r oo).getOpt r = some oo :=
      getOpt_setOpt _ r o oo (by rw [getOpt_setLine]; exact hget)
    simp [runValid, hg, hvc, inheritComment]

/-- what `cfg_setopt` makes of a plain scalar option marked "replace": exactly one cell, the value the text denotes -/
theorem setopt_replace_plain (orc : Oracle) (k : Nat) (ci : CfgInfo) (o : Opt) (v : Bytes) (val : Val)
    (hty : o.ty = .int ∨ o.ty = .float ∨ o.ty = .bool ∨ o.ty = .str) (hpc : o.info.parseCb = false)
    (hnl : o.flags.list = false) (hnm : o.flags.multi = false)
    (hconv : convTok o.ty v = some val) (hfree : freeEvOpt o = []) :
    setopt orc k ci o.markReplace (some v) =
      ⟨.mk o.info { o.flags with reset := false, modified := true } o.subs [val] o.comment, some 0, [], []⟩ := by
  obtain ⟨info, fl, subs, vals, cm⟩ := o
  simp only [Opt.ty, Opt.info, Opt.flags, Opt.subs, Opt.comment] at hty hpc hnl hnm hconv ⊢
  have hfree' : freeEvVals info.freeCb vals = [] := by simpa [freeEvOpt] using hfree
  unfold setopt setoptConvert
  simp only [Opt.markReplace, Opt.setFlags, Opt.ty, Opt.info, Opt.flags, Opt.subs, Opt.vals, Opt.comment, hpc]
  rcases hty with h | h | h | h
  all_goals (
    simp only [h, convTok] at hconv ⊢
    first
      | (cases hc : convInt v with
         | ok n => simp [hc] at hconv; subst hconv
                   simp [dropDefaults, freeValue, Opt.flags, Opt.setFlags, Opt.vals, Opt.info, Opt.subs, Opt.comment, setoptStore, hnl, hnm, freeEvOpt, hfree', Opt.ty, h]
         | error e => simp [hc] at hconv)
      | (cases hc : convFloat v with
         | ok n => simp [hc] at hconv; subst hconv
                   simp [dropDefaults, freeValue, Opt.flags, Opt.setFlags, Opt.vals, Opt.info, Opt.subs, Opt.comment, setoptStore, hnl, hnm, freeEvOpt, hfree', Opt.ty, h]
         | error e => simp [hc] at hconv)
      | (cases hc : convBool v with
         | some n => simp [hc] at hconv; subst hconv
                     simp [dropDefaults, freeValue, Opt.flags, Opt.setFlags, Opt.vals, Opt.info, Opt.subs, Opt.comment, setoptStore, hnl, hnm, freeEvOpt, hfree', Opt.ty, h]
         | none => simp [hc] at hconv)
      | (simp at hconv; subst hconv
         simp [dropDefaults, freeValue, Opt.flags, Opt.setFlags, Opt.vals, Opt.info, Opt.subs, Opt.comment, setoptStore, hnl, hnm, freeEvOpt, hfree', Opt.ty, h]))

/-! ## list items -/

/-- the cells a list of value tokens denotes for a type; `none` when one of them does not convert -/
def convToks (ty : Ty) : List Bytes → Option (List Val)
  | [] => some []
  | t :: ts => match convTok ty t, convToks ty ts with
    | some v, some vs => some (v :: vs)
    | _, _ => none

/-- `cfg_setopt` appending one converted value to a list option that is not pristine any more -/
theorem setopt_append_plain (orc : Oracle) (k : Nat) (ci : CfgInfo) (o : Opt) (v : Bytes) (val : Val)
    (hty : o.ty = .int ∨ o.ty = .float ∨ o.ty = .bool ∨ o.ty = .str) (hpc : o.info.parseCb = false)
    (hl : o.flags.list = true) (hr : o.flags.reset = false)
    (hconv : convTok o.ty v = some val) :
    setopt orc k ci o (some v) =
      ⟨.mk o.info { o.flags with modified := true } o.subs (o.vals ++ [val]) o.comment, some o.vals.length, [], []⟩ := by
  obtain ⟨info, fl, subs, vals, cm⟩ := o
  simp only [Opt.ty, Opt.info, Opt.flags, Opt.subs, Opt.comment, Opt.vals] at hty hpc hl hr hconv ⊢
  unfold setopt setoptConvert
  simp only [Opt.ty, Opt.info, Opt.flags, Opt.subs, Opt.vals, Opt.comment, hpc]
  rcases hty with h | h | h | h
  all_goals (
    simp only [h, convTok] at hconv ⊢
    first
      | (cases hc : convInt v with
         | ok n => simp [hc] at hconv; subst hconv
                   simp [dropDefaults, Opt.flags, Opt.setFlags, Opt.vals, Opt.info, Opt.subs, Opt.comment, setoptStore, hl, hr, h]
         | error e => simp [hc] at hconv)
      | (cases hc : convFloat v with
         | ok n => simp [hc] at hconv; subst hconv
                   simp [dropDefaults, Opt.flags, Opt.setFlags, Opt.vals, Opt.info, Opt.subs, Opt.comment, setoptStore, hl, hr, h]
         | error e => simp [hc] at hconv)
      | (cases hc : convBool v with
         | some n => simp [hc] at hconv; subst hconv
                     simp [dropDefaults, Opt.flags, Opt.setFlags, Opt.vals, Opt.info, Opt.subs, Opt.comment, setoptStore, hl, hr, h]
         | none => simp [hc] at hconv)
      | (simp at hconv; subst hconv
         simp [dropDefaults, Opt.flags, Opt.setFlags, Opt.vals, Opt.info, Opt.subs, Opt.comment, setoptStore, hl, hr, h]))

/-- what a list option holds before the next stored value is appended: nothing if it is still pristine or was marked
"replace", else its values -/
def Opt.base (o : Opt) : List Val := if o.flags.reset then [] else o.vals

/-- the option after one more stored value -/
def Opt.appendVal (o : Opt) (val : Val) : Opt :=
  .mk o.info { o.flags with reset := false, modified := true } o.subs (o.base ++ [val]) o.comment

/-- `cfg_setopt` of one converted value on a plain list option, pristine / marked "replace" or not -/
theorem setopt_list_plain (orc : Oracle) (k : Nat) (ci : CfgInfo) (o : Opt) (v : Bytes) (val : Val)
    (hty : o.ty = .int ∨ o.ty = .float ∨ o.ty = .bool ∨ o.ty = .str) (hpc : o.info.parseCb = false)
    (hl : o.flags.list = true) (hconv : convTok o.ty v = some val) (hfree : freeEvOpt o = []) :
    setopt orc k ci o (some v) = ⟨o.appendVal val, some o.base.length, [], []⟩ := by
  unfold Opt.appendVal
  by_cases hr : o.flags.reset = true
  · -- dropDefaults, then the append
    obtain ⟨info, fl, subs, vals, cm⟩ := o
    simp only [Opt.ty, Opt.info, Opt.flags, Opt.subs, Opt.comment, Opt.vals, Opt.base] at hty hpc hl hr hconv ⊢
    have hfree' : freeEvVals info.freeCb vals = [] := by simpa [freeEvOpt] using hfree
    unfold setopt setoptConvert
    simp only [Opt.ty, Opt.info, Opt.flags, Opt.subs, Opt.vals, Opt.comment, hpc]
    rcases hty with h | h | h | h
    all_goals (
      simp only [h, convTok] at hconv ⊢
      first
        | (cases hc : convInt v with
           | ok n => simp [hc] at hconv; subst hconv
                     simp [dropDefaults, freeValue, Opt.flags, Opt.setFlags, Opt.vals, Opt.info, Opt.subs, Opt.comment, setoptStore, hl, hr, h, freeEvOpt, hfree']
           | error e => simp [hc] at hconv)
        | (cases hc : convFloat v with
           | ok n => simp [hc] at hconv; subst hconv
                     simp [dropDefaults, freeValue, Opt.flags, Opt.setFlags, Opt.vals, Opt.info, Opt.subs, Opt.comment, setoptStore, hl, hr, h, freeEvOpt, hfree']
           | error e => simp [hc] at hconv)
        | (cases hc : convBool v with
           | some n => simp [hc] at hconv; subst hconv
                       simp [dropDefaults, freeValue, Opt.flags, Opt.setFlags, Opt.vals, Opt.info, Opt.subs, Opt.comment, setoptStore, hl, hr, h, freeEvOpt, hfree']
           | none => simp [hc] at hconv)
        | (simp at hconv; subst hconv
           simp [dropDefaults, freeValue, Opt.flags, Opt.setFlags, Opt.vals, Opt.info, Opt.subs, Opt.comment, setoptStore, hl, hr, h, freeEvOpt, hfree']))
  · have hr' : o.flags.reset = false := by simpa using hr
    rw [setopt_append_plain orc k ci o v val hty hpc hl hr' hconv]
    obtain ⟨info, fl, subs, vals, cm⟩ := o
    simp only [Opt.flags] at hr'
    simp [Opt.base, Opt.flags, hr', Opt.vals]


/-- the option as the assignment token leaves it: `=` marks "replace", `+=` "append" -/
def Opt.markAsg (o : Opt) (app : Bool) : Opt := o.setFlags { o.flags with reset := !app, modified := true }

/-- `=` / `+=` after the name of a list option -/
theorem pstep_asg_list (orc : Oracle) (m : PM) (f : Frame) (rest : List Frame) (app : Bool) (n2 : Nat) (r : OptRef) (o : Opt)
    (hrun : m.status = .running) (hfr : m.frames = f :: rest) (hst : f.state = .s1) (hopt : f.opt = some r)
    (hget : f.cfg.getOpt r = some o) (hl : o.flags.list = true) :
    pstep orc m (asgTok app) n2 =
      { m with frames := { f with cfg := (f.cfg.setLine (f.cfg.line + n2)).setOpt r (o.markAsg app),
                                  state := .s3, numValues := 0 } :: rest } := by
  obtain ⟨cfg, level, state, opt, comment, opttitle, funcargs, ignore, depth, numValues, back⟩ := f
  simp only at hst hopt hget
  subst hst; subst hopt
  unfold pstep
  simp only [hrun, hfr]
  cases app <;> simp [asgTok, step_s1, getOpt_setLine, hget, hl, Opt.markAsg]

/-- `{` opening the value list -/
theorem pstep_lbrace_list (orc : Oracle) (m : PM) (f : Frame) (rest : List Frame) (n : Nat)
    (hrun : m.status = .running) (hfr : m.frames = f :: rest) (hst : f.state = .s3) :
    pstep orc m .lbrace n = { m with frames := { f with cfg := f.cfg.setLine (f.cfg.line + n), state := .s2 } :: rest } := by
  obtain ⟨cfg, level, state, opt, comment, opttitle, funcargs, ignore, depth, numValues, back⟩ := f
  simp only at hst
  subst hst
  unfold pstep
  simp only [hrun, hfr]
  simp [step_s3]

/-- `,` between two values -/
theorem pstep_comma_list (orc : Oracle) (m : PM) (f : Frame) (rest : List Frame) (n : Nat)
    (hrun : m.status = .running) (hfr : m.frames = f :: rest) (hst : f.state = .s4) :
    pstep orc m .comma n = { m with frames := { f with cfg := f.cfg.setLine (f.cfg.line + n), state := .s2 } :: rest } := by
  obtain ⟨cfg, level, state, opt, comment, opttitle, funcargs, ignore, depth, numValues, back⟩ := f
  simp only at hst
  subst hst
  unfold pstep
  simp only [hrun, hfr]
  simp [step_s4]

/-- a value token inside the braces of a plain list option -/
theorem pstep_value_list (orc : Oracle) (m : PM) (f : Frame) (rest : List Frame) (v : Bytes) (n3 : Nat) (r : OptRef) (o : Opt) (val : Val)
    (hrun : m.status = .running) (hfr : m.frames = f :: rest) (hst : f.state = .s2) (hopt : f.opt = some r)
    (hcm : f.comment = none) (hget : f.cfg.getOpt r = some o)
    (hty : o.ty = .int ∨ o.ty = .float ∨ o.ty = .bool ∨ o.ty = .str) (hpc : o.info.parseCb = false) (hvc : o.info.validCb = false)
    (hl : o.flags.list = true) (hconv : convTok o.ty v = some val) (hfree : freeEvOpt o = []) :
    pstep orc m (.str v) n3 =
      { m with frames := { f with cfg := (f.cfg.setLine (f.cfg.line + n3)).setOpt r (o.appendVal val),
                                  state := .s4, numValues := f.numValues + 1 } :: rest } := by
  obtain ⟨cfg, level, state, opt, comment, opttitle, funcargs, ignore, depth, numValues, back⟩ := f
  simp only at hst hopt hget hcm
  subst hst; subst hopt; subst hcm
  unfold pstep
  simp only [hrun, hfr]
  simp only [step_s2, storeValue, getOpt_setLine, hget, Option.bind, hl, PM.k]
  rw [setopt_list_plain orc _ _ o v val hty hpc hl hconv hfree]
  have hvc1 : (o.appendVal val).info.validCb = false := hvc
  generalize o.appendVal val = o1 at hvc1 ⊢
  have hg : ((cfg.setLine (cfg.line + n3)).setOpt r o1).getOpt r = some o1 :=
    getOpt_setOpt _ r o _ (by rw [getOpt_setLine]; exact hget)
  simp [runValid, hg, hvc1, inheritComment]

theorem listSet_self {α} (l : List α) (i : Nat) (x : α) (h : l[i]? = some x) : listSet l i x = l := by
  induction l generalizing i with
  | nil => rfl
  | cons a as ih =>
    cases i with
    | zero => simp at h; subst h; rfl
    | succ n => simp at h; simp [listSet, ih n h]

theorem setOpts_self (c : Cfg) : c.setOpts c.opts = c := by cases c; rfl

theorem setChild_self (c : Cfg) (oi ii : Nat) (s : Cfg) (h : c.child oi ii = some s) : c.setChild oi ii s = c := by
  unfold Cfg.child at h
  unfold Cfg.setChild
  cases ho : c.opts[oi]? with
  | none => rfl
  | some o =>
    simp only [ho] at h ⊢
    cases hv : o.vals[ii]? with
    | none => simp [hv] at h
    | some v =>
      simp only [hv] at h
      cases v with
      | sec s' =>
        simp only [Option.some.injEq] at h; subst h
        have : o.setVals (listSet o.vals ii (.sec s')) = o := by
          cases o; simp only [Opt.setVals, Opt.vals] at hv ⊢; rw [listSet_self _ _ _ hv]; rfl
        rw [this, listSet_self _ _ _ ho, setOpts_self]
      | _ => simp at h

/-- **put what you got**: writing back the option a reference holds changes nothing -/
theorem updOptAt_self : ∀ (steps : List (Nat × Nat)) (c : Cfg) (leaf : Nat) (o : Opt),
    getOptAt c steps leaf = some o → updOptAt (fun _ => o) c steps leaf = c := by
  intro steps
  induction steps with
  | nil =>
    intro c leaf o h
    simp only [getOptAt] at h
    simp only [updOptAt, h, listSet_self _ _ _ h, setOpts_self]
  | cons st rest ih =>
    intro c leaf o h
    obtain ⟨oi, ii⟩ := st
    simp only [getOptAt] at h
    simp only [updOptAt]
    cases hc : c.child oi ii with
    | none => rfl
    | some s =>
      simp only [hc] at h ⊢
      rw [ih s leaf o h, setChild_self c oi ii s hc]

theorem setOpt_self (c : Cfg) (r : OptRef) (o : Opt) (h : c.getOpt r = some o) : c.setOpt r o = c :=
  updOptAt_self r.steps c r.leaf o h

theorem setLine_same (c : Cfg) : c.setLine c.line = c := by cases c; rfl

def Opt.appendVals (o : Opt) : List Val → Opt
  | [] => o
  | v :: vs => (o.appendVal v).appendVals vs

@[simp] theorem appendVal_ty (o : Opt) (v : Val) : (o.appendVal v).ty = o.ty := rfl
@[simp] theorem appendVal_info (o : Opt) (v : Val) : (o.appendVal v).info = o.info := rfl
@[simp] theorem appendVal_list (o : Opt) (v : Val) : (o.appendVal v).flags.list = o.flags.list := rfl
@[simp] theorem appendVal_reset (o : Opt) (v : Val) : (o.appendVal v).flags.reset = false := rfl

theorem convTok_scalar (ty : Ty) (t : Bytes) (val : Val) (h : convTok ty t = some val) (fc : Bool) : freeEvVal fc val = [] := by
  unfold convTok at h
  cases ty <;> simp only [] at h
  · cases hc : convInt t <;> simp [hc] at h; subst h; rfl
  · cases hc : convFloat t <;> simp [hc] at h; subst h; rfl
  · injection h with h; subst h; rfl
  · cases hc : convBool t <;> simp [hc] at h; subst h; rfl
  all_goals simp at h

theorem freeEvVals_append (fc : Bool) (a b : List Val) : freeEvVals fc (a ++ b) = freeEvVals fc a ++ freeEvVals fc b := by
  induction a with
  | nil => rfl
  | cons x xs ih => simp [freeEvVals, ih]

theorem appendVal_free (o : Opt) (t : Bytes) (val : Val) (hf : freeEvOpt o = []) (hc : convTok o.ty t = some val) :
    freeEvOpt (o.appendVal val) = [] := by
  obtain ⟨info, fl, subs, vals, cm⟩ := o
  simp only [freeEvOpt, Opt.appendVal, Opt.base, Opt.info, Opt.flags, Opt.vals, Opt.ty] at hf hc ⊢
  rw [freeEvVals_append]
  have h1 := convTok_scalar _ t val hc info.freeCb
  by_cases hr : fl.reset = true
  · simp [hr, freeEvVals, h1]
  · simp [hr, hf, freeEvVals, h1]

/-- line increments of a value sequence -/
def seqLines : List (Nat × Bytes × Nat) → Nat
  | [] => 0
  | (c, _, n) :: t => c + n + seqLines t

/-- **the values after the first one**: `, v` repeated, from "after a value" back to "after a value" -/
theorem list_tail_loop (orc : Oracle) : ∀ (vs : List (Nat × Bytes × Nat)) (vals : List Val) (m : PM) (f : Frame) (rest : List Frame)
    (r : OptRef) (o : Opt),
    m.status = .running → m.frames = f :: rest → f.state = .s4 → f.opt = some r → f.comment = none →
    f.cfg.getOpt r = some o →
    (o.ty = .int ∨ o.ty = .float ∨ o.ty = .bool ∨ o.ty = .str) → o.info.parseCb = false → o.info.validCb = false →
    o.flags.list = true → freeEvOpt o = [] →
    convToks o.ty (vs.map (·.2.1)) = some vals →
    parseToks orc m (flatSeq false vs) =
      { m with frames := { f with cfg := (f.cfg.setOpt r (o.appendVals vals)).setLine (f.cfg.line + seqLines vs),
                                  numValues := f.numValues + vs.length } :: rest } := by
  intro vs
  induction vs with
  | nil =>
    intro vals m f rest r o hrun hfr hst hopt hcm hget _ _ _ _ _ hcv
    simp only [List.map, convToks] at hcv
    injection hcv with hcv; subst hcv
    obtain ⟨frames, srcs, status, diags, trace, pi, md⟩ := m
    simp only at hfr; subst hfr
    simp only [flatSeq, parseToks, List.foldl, Opt.appendVals, seqLines, Nat.add_zero, List.length_nil, setOpt_self _ _ _ hget, setLine_same]
  | cons x xs ih =>
    intro vals m f rest r o hrun hfr hst hopt hcm hget hty hpc hvc hl hfree hcv
    obtain ⟨c, t, n⟩ := x
    simp only [List.map, convToks] at hcv
    cases h1 : convTok o.ty t with
    | none => simp [h1] at hcv
    | some val =>
      cases h2 : convToks o.ty (xs.map (·.2.1)) with
      | none => simp [h1, h2] at hcv
      | some vals' =>
        simp only [h1, h2, Option.some.injEq] at hcv
        subst hcv
        simp only [flatSeq, parseToks, List.foldl]
        rw [pstep_comma_list orc m f rest c hrun hfr hst]
        rw [pstep_value_list orc { m with frames := { f with cfg := f.cfg.setLine (f.cfg.line + c), state := .s2 } :: rest }
              { f with cfg := f.cfg.setLine (f.cfg.line + c), state := .s2 } rest t n r o val hrun rfl rfl hopt hcm
              (by simp only [getOpt_setLine]; exact hget) hty hpc hvc hl h1 hfree]
        have ih' := ih vals'
          { m with frames := { f with cfg := ((f.cfg.setLine (f.cfg.line + c)).setLine ((f.cfg.setLine (f.cfg.line + c)).line + n)).setOpt r (o.appendVal val),
                                      state := .s4, numValues := f.numValues + 1 } :: rest }
          { f with cfg := ((f.cfg.setLine (f.cfg.line + c)).setLine ((f.cfg.setLine (f.cfg.line + c)).line + n)).setOpt r (o.appendVal val),
                   state := .s4, numValues := f.numValues + 1 } rest r (o.appendVal val)
          hrun rfl rfl hopt hcm
          (getOpt_setOpt _ r o _ (by simp only [getOpt_setLine]; exact hget))
          (by simpa using hty) (by simpa using hpc) (by simpa using hvc) (by simpa using hl)
          (appendVal_free o t val hfree h1) (by simpa using h2)
        simp only [parseToks] at ih'
        dsimp only at ih' ⊢
        rw [ih']
        simp only [setLine_line, setLine_setLine, setOpt_setLine, setOpt_setOpt, setOpt_line, Opt.appendVals, seqLines, List.length_cons]
        have e1 : f.cfg.line + c + n + seqLines xs = f.cfg.line + (c + n + seqLines xs) := by omega
        have e2 : f.numValues + 1 + xs.length = f.numValues + (xs.length + 1) := by omega
        rw [e1, e2, hst]

/-- `}` after the last value of a list whose option has no validation callback -/
theorem pstep_close_list (orc : Oracle) (m : PM) (f : Frame) (rest : List Frame) (n : Nat) (r : OptRef) (o : Opt)
    (hrun : m.status = .running) (hfr : m.frames = f :: rest) (hst : f.state = .s4) (hopt : f.opt = some r)
    (hget : f.cfg.getOpt r = some o) (hvc : o.info.validCb = false) :
    pstep orc m .rbrace n = { m with frames := { f with cfg := f.cfg.setLine (f.cfg.line + n), state := .s0 } :: rest } := by
  obtain ⟨cfg, level, state, opt, comment, opttitle, funcargs, ignore, depth, numValues, back⟩ := f
  simp only at hst hopt hget
  subst hst; subst hopt
  unfold pstep
  simp only [hrun, hfr]
  simp [step_s4, runValid, getOpt_setLine, hget, hvc]

/-- `}` right after `{`: an empty list.  After `=` the option is emptied (its defaults go); after `+=` nothing changes. -/
theorem pstep_close_empty (orc : Oracle) (m : PM) (f : Frame) (rest : List Frame) (n : Nat) (r : OptRef) (o : Opt)
    (hrun : m.status = .running) (hfr : m.frames = f :: rest) (hst : f.state = .s2) (hopt : f.opt = some r)
    (hnv : f.numValues = 0) (hget : f.cfg.getOpt r = some o) (hl : o.flags.list = true) (hfree : freeEvOpt o = []) :
    pstep orc m .rbrace n =
      { m with frames := { f with cfg := (f.cfg.setLine (f.cfg.line + n)).setOpt r (if o.flags.reset then (freeValue o).1 else o),
                                  state := .s0 } :: rest } := by
  obtain ⟨cfg, level, state, opt, comment, opttitle, funcargs, ignore, depth, numValues, back⟩ := f
  simp only at hst hopt hget hnv
  subst hst; subst hopt; subst hnv
  unfold pstep
  simp only [hrun, hfr]
  by_cases hr : o.flags.reset = true
  · simp [step_s2, getOpt_setLine, hget, hl, hr, freeValue, hfree]
  · have hg : (cfg.setLine (cfg.line + n)).getOpt r = some o := by rw [getOpt_setLine]; exact hget
    simp [step_s2, getOpt_setLine, hget, hl, hr, setOpt_self _ _ _ hg]

/-- the name token of an item whose name resolves silently to a list option (state 1 follows, as for a scalar) -/
theorem markAsg_props (o : Opt) (app : Bool) :
    (o.markAsg app).ty = o.ty ∧ (o.markAsg app).info = o.info ∧ (o.markAsg app).flags.list = o.flags.list ∧
    (o.markAsg app).flags.reset = !app ∧ (o.markAsg app).vals = o.vals ∧ freeEvOpt (o.markAsg app) = freeEvOpt o := by
  cases o; exact ⟨rfl, rfl, rfl, rfl, rfl, rfl⟩

theorem appendVals_vals (o : Opt) (v : Val) (l : List Val) : (o.appendVals (v :: l)).vals = o.base ++ v :: l := by
  induction l generalizing o v with
  | nil => rfl
  | cons a as ih =>
    have := ih (o.appendVal v) a
    simp only [Opt.appendVals] at this ⊢
    rw [this]
    cases o
    simp [Opt.appendVal, Opt.base, Opt.flags, Opt.vals]

end Confuse
