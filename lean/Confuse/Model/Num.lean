import Confuse.Basic
/-!
# Numeric conversion model: `strtol`, `strtod` (exact binary64), `%ld`, `%f`

`strtolC` / `strtodC` model glibc 2.36 in the "C" locale on LP64.  A double is carried as its
64-bit pattern (`Nat`); rounding is done with exact `Nat` arithmetic, so the kernel can evaluate it.
-/
namespace Confuse

def longMax : Int := 9223372036854775807
def longMin : Int := -9223372036854775808

def digitVal (c : Nat) : Nat :=
  if isDec c then c - 48 else if isAlpha c then toLower c - 97 + 10 else 99

/-- consume digits of `base`; returns the value and what is left -/
def takeDigits (base : Nat) : Nat → Bytes → Nat × Bytes
  | acc, [] => (acc, [])
  | acc, c :: cs => if digitVal c < base then takeDigits base (acc * base + digitVal c) cs else (acc, c :: cs)

structure StrtolOut where
  val : Int
  rest : Bytes      -- `endptr`
  erange : Bool
deriving DecidableEq, Repr, Inhabited

def splitSign (s : Bytes) : Bool × Bytes :=
  match s with
  | c :: r => if c = c_minus then (true, r) else if c = c_plus then (false, r) else (false, s)
  | [] => (false, [])

/-- `0x`/`0X` followed by a hex digit, taken as a prefix when the base is 0 or 16 -/
def hexPrefix (base : Nat) (s2 : Bytes) : Bool :=
  (base == 0 || base == 16) &&
    (match s2 with
     | z :: x :: h :: _ => z == 48 && (x == 120 || x == 88) && isHex h
     | _ => false)

/-- digits of base `b` from `s3`, sign applied, clamped to `long`; `s` is the whole input -/
def strtolCore (neg : Bool) (b : Nat) (s s3 : Bytes) : StrtolOut :=
  let r := takeDigits b 0 s3
  if r.2.length == s3.length then ⟨0, s, false⟩      -- no digits: no conversion
  else if neg then
    (if r.1 > 9223372036854775808 then ⟨longMin, r.2, true⟩ else ⟨-(r.1 : Int), r.2, false⟩)
  else
    (if r.1 > 9223372036854775807 then ⟨longMax, r.2, true⟩ else ⟨(r.1 : Int), r.2, false⟩)

/-- glibc `strtol(s, &end, base)` for base 0 or 2..36 -/
def strtolC (s : Bytes) (base : Nat) : StrtolOut :=
  let p := splitSign (s.dropWhile isSpaceC)
  let hp := hexPrefix base p.2
  let b : Nat := if hp then 16 else if base == 0 then (if p.2.head? == some 48 then 8 else 10) else base
  strtolCore p.1 b s (if hp then p.2.drop 2 else p.2)

/-- `cfg_digits_ok` of confuse.c -/
def digitsOk (s : Bytes) (radix : Nat) : Bool :=
  if radix == 10 then
    (match (splitSign s).2 with
     | c :: _ => isDec c
     | [] => false)
  else if s.isEmpty then radix == 8
  else s.all (fun c => digitVal c < radix)

inductive ConvErr | invalid | range | null
deriving DecidableEq, Repr, Inhabited

/-- the radix guess of `cfg_setopt()`: (radix handed to strtol, where the digits start) -/
def radixOf (value : Bytes) : Nat × Bytes :=
  match value with
  | 48 :: 98 :: r2 => (2, r2)
  | 48 :: 120 :: r2 => (16, r2)
  | 48 :: r => (8, r)
  | _ => (10, value)

/-- digit check + `strtol` full-match + range check -/
def convIntWith (radix : Nat) (intStr : Bytes) : Except ConvErr Int :=
  if !digitsOk intStr radix then .error .invalid
  else
    let o := strtolC intStr radix
    if !o.rest.isEmpty then .error .invalid
    else if o.erange then .error .range
    else .ok o.val

/-- `cfg_setopt()` case CFGT_INT without a parse callback -/
def convInt (value : Bytes) : Except ConvErr Int :=
  convIntWith (radixOf value).1 (radixOf value).2

/-- `cfg_parse_boolean` -/
def convBool (value : Bytes) : Option Bool :=
  let l := lowerBytes value
  if l == [116,114,117,101] || l == [111,110] || l == [121,101,115] then some true
  else if l == [102,97,108,115,101] || l == [111,102,102] || l == [110,111] then some false
  else none

/-! ## binary64 -/

/-- finite double: value = (-1)^neg * m * 2^e, m < 2^53, e ≥ -1074, normalised (m ≥ 2^52 unless e = -1074) -/
inductive Dbl where
  | fin (neg : Bool) (m : Nat) (e : Int)
  | inf (neg : Bool)
  | nan
deriving Repr, DecidableEq, Inhabited

structure DConv where
  val : Dbl
  erange : Bool
deriving Repr, DecidableEq, Inhabited

/-- round the positive rational num/den to nearest-even binary64 -/
def roundRat (neg : Bool) (num den : Nat) : DConv :=
  let ln := Nat.log2 num
  let ld := Nat.log2 den
  let e0 : Int := (ln : Int) - (ld : Int) - 52
  let scale (e : Int) : Nat × Nat := if e ≥ 0 then (num, den * 2 ^ e.toNat) else (num * 2 ^ (-e).toNat, den)
  let e1 : Int :=
    let (n, d) := scale e0
    let q := n / d
    if q < 2 ^ 52 then e0 - 1 else if q ≥ 2 ^ 53 then e0 + 1 else e0
  let e2 : Int := if e1 < -1074 then -1074 else e1
  let (n, d) := scale e2
  let q := n / d
  let r := n % d
  let up := 2 * r > d || (2 * r == d && q % 2 == 1)
  let q' := if up then q + 1 else q
  let (qf, ef) : Nat × Int := if q' == 2 ^ 53 then (2 ^ 52, e2 + 1) else (q', e2)
  let inexact := r != 0
  if ef + 52 ≥ 1024 then ⟨.inf neg, true⟩
  else
    let tiny := qf < 2 ^ 52
    ⟨.fin neg qf ef, tiny && inexact⟩

def numDigits10 : Nat → Nat → Nat
  | 0, _ => 0
  | fuel + 1, m => if m < 10 then 1 else 1 + numDigits10 fuel (m / 10)

/-- decimal m * 10^e10 -/
def ofDecimal (neg : Bool) (m : Nat) (e10 : Int) : DConv :=
  if m == 0 then ⟨.fin neg 0 (-1074), false⟩
  else
    let nd := numDigits10 (Nat.log2 m + 2) m
    if (nd : Int) + e10 > 400 then ⟨.inf neg, true⟩
    else if (nd : Int) + e10 < -400 then ⟨.fin neg 0 (-1074), true⟩
    else if e10 ≥ 0 then roundRat neg (m * 10 ^ e10.toNat) 1
    else roundRat neg m (10 ^ (-e10).toNat)

/-- binary m * 2^e2 (hex float literals) -/
def ofBinary (neg : Bool) (m : Nat) (e2 : Int) : DConv :=
  if m == 0 then ⟨.fin neg 0 (-1074), false⟩
  else
    let nb := Nat.log2 m + 1
    if (nb : Int) + e2 > 1100 then ⟨.inf neg, true⟩
    else if (nb : Int) + e2 < -1200 then ⟨.fin neg 0 (-1074), true⟩
    else if e2 ≥ 0 then roundRat neg (m * 2 ^ e2.toNat) 1
    else roundRat neg m (2 ^ (-e2).toNat)

def Dbl.toBits : Dbl → Nat
  | .nan => 0x7FF8000000000000
  | .inf neg => (if neg then 2 ^ 63 else 0) + 0x7FF0000000000000
  | .fin neg m e =>
    let s := if neg then 2 ^ 63 else 0
    if m < 2 ^ 52 then s + m
    else s + ((e + 1075).toNat) * 2 ^ 52 + (m - 2 ^ 52)

def Dbl.ofBits (b : Nat) : Dbl :=
  let neg : Bool := b / 2 ^ 63 % 2 == 1
  let ex : Nat := b / 2 ^ 52 % 2048
  let mant : Nat := b % 2 ^ 52
  if ex == 2047 then (if mant == 0 then .inf neg else .nan)
  else if ex == 0 then .fin neg mant (-1074)
  else .fin neg (mant + 2 ^ 52) ((ex : Int) - 1075)

/-- decimal digits of `n`, most significant first (`"0"` for zero) -/
def decDigits (n : Nat) : Bytes :=
  if h : n < 10 then [48 + n] else decDigits (n / 10) ++ [48 + n % 10]
termination_by n
decreasing_by omega

def pad6 (n : Nat) : Bytes :=
  let s := decDigits n
  List.replicate (6 - s.length) 48 ++ s

/-- `printf("%f")` -/
def printF6 : Dbl → Bytes
  | .nan => [110, 97, 110]
  | .inf neg => (if neg then [c_minus] else []) ++ [105, 110, 102]
  | .fin neg m e =>
    let sgn : Bytes := if neg then [c_minus] else []
    if e ≥ 0 then sgn ++ decDigits (m * 2 ^ e.toNat) ++ [46, 48, 48, 48, 48, 48, 48]
    else
      let d := 2 ^ (-e).toNat
      let n := m * 1000000
      let q := n / d
      let r := n % d
      let up := 2 * r > d || (2 * r == d && q % 2 == 1)
      let q' := if up then q + 1 else q
      sgn ++ decDigits (q' / 1000000) ++ [46] ++ pad6 (q' % 1000000)

/-- `printf("%ld")` -/
def printInt (n : Int) : Bytes :=
  if n < 0 then c_minus :: decDigits n.natAbs else decDigits n.natAbs

/-! ### `strtod` -/

structure StrtodOut where
  val : Dbl
  rest : Bytes
  consumed : Bool     -- `endptr != nptr`
  erange : Bool
deriving Repr, DecidableEq, Inhabited

def takeDec : Nat → Nat → Bytes → Nat × Nat × Bytes      -- value, count, rest
  | acc, k, [] => (acc, k, [])
  | acc, k, c :: cs => if isDec c then takeDec (acc * 10 + (c - 48)) (k + 1) cs else (acc, k, c :: cs)

def takeHex : Nat → Nat → Bytes → Nat × Nat × Bytes
  | acc, k, [] => (acc, k, [])
  | acc, k, c :: cs => if isHex c then takeHex (acc * 16 + hexVal c) (k + 1) cs else (acc, k, c :: cs)

/-- optional exponent `[eE][+-]?digits` (only consumed when at least one digit follows) -/
def takeExp (marker : Nat) (s : Bytes) : Int × Bytes :=
  match s with
  | e :: r =>
    if toLower e = marker then
      let (neg, r2) := splitSign r
      let (v, k, r3) := takeDec 0 0 r2
      if k = 0 then (0, s) else ((if neg then -(v : Int) else (v : Int)), r3)
    else (0, s)
  | [] => (0, s)

def startsWithNoCase (s : Bytes) (w : Bytes) : Bool := lowerBytes (s.take w.length) == w

/-- glibc `strtod` in the "C" locale -/
def strtodC (s : Bytes) : StrtodOut :=
  let s1 := s.dropWhile isSpaceC
  let (neg, s2) := splitSign s1
  if startsWithNoCase s2 [105,110,102,105,110,105,116,121] then ⟨.inf neg, s2.drop 8, true, false⟩
  else if startsWithNoCase s2 [105,110,102] then ⟨.inf neg, s2.drop 3, true, false⟩
  else if startsWithNoCase s2 [110,97,110] then
    -- optional `(n-char-sequence)`
    let r := s2.drop 3
    let r' := match r with
      | p :: q =>
        if p = c_lp then
          let body := q.takeWhile (fun c => isDec c || isAlpha c || c == 95)
          (match q.drop body.length with
           | cl :: after => if cl = c_rp then after else r
           | [] => r)
        else r
      | [] => r
    ⟨.nan, r', true, false⟩
  else
    let isHexLit : Bool :=
      match s2 with
      | z :: x :: h :: rest => z == 48 && (x == 120 || x == 88) && (isHex h || (h == 46 && (match rest with | g :: _ => isHex g | [] => false)))
      | _ => false
    if isHexLit then
      let s3 := s2.drop 2
      let (ip, _, r1) := takeHex 0 0 s3
      let (m, fk, r2) : Nat × Nat × Bytes :=
        match r1 with
        | d :: r => if d = 46 then (let (v, k, r') := takeHex ip 0 r; (v, k, r')) else (ip, 0, r1)
        | [] => (ip, 0, r1)
      let (ex, r3) := takeExp 112 r2
      let c := ofBinary neg m (ex - 4 * (fk : Int))
      ⟨c.val, r3, true, c.erange⟩
    else
      let (ip, ik, r1) := takeDec 0 0 s2
      let (m, fk, r2) : Nat × Nat × Bytes :=
        match r1 with
        | d :: r => if d = 46 then (let (v, k, r') := takeDec ip 0 r; (v, k, r')) else (ip, 0, r1)
        | [] => (ip, 0, r1)
      -- a lone "." (no digit on either side) is not a number
      let hadDot := r1.head? == some 46
      if ik = 0 && (fk = 0) then ⟨.fin false 0 (-1074), s, false, false⟩
      else
        let r2' := if hadDot then r2 else r1
        let (ex, r3) := takeExp 101 r2'
        let c := ofDecimal neg m (ex - (fk : Int))
        ⟨c.val, r3, true, c.erange⟩

def Dbl.isFinite : Dbl → Bool
  | .fin _ _ _ => true
  | _ => false

def leadingSpace (v : Bytes) : Bool := match v with | c :: _ => isSpaceC c | [] => false

/-- `cfg_setopt()` case CFGT_FLOAT (after the strictness fix); result is the bit pattern -/
def convFloat (value : Bytes) : Except ConvErr Nat :=
  if !(strtodC value).rest.isEmpty || !(strtodC value).consumed || leadingSpace value then .error .invalid
  else if (strtodC value).erange then .error .range
  else if !(strtodC value).val.isFinite then .error .invalid
  else .ok (strtodC value).val.toBits

end Confuse
