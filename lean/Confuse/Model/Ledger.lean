import Confuse.Model.Api
/-!
# Ownership ledger (count level): the heap blocks a context owns

`footCfg c` is the number of blocks allocated by `src/confuse.c` that are reachable from the context
`c` and are released by `cfg_free(c)`, not counting the `values` pointer arrays (whose presence is
not a function of the logical state: `cfg_opt_rmnsec` keeps an empty array).  The harness measures
the same quantity on the running library with a counting allocator.
-/
namespace Confuse

def b2n (b : Bool) : Nat := if b then 1 else 0

mutual
/-- one entry of a duplicated declaration array: name, parsed default, default string, sub-array -/
def footDecl : Decl → Nat
  | .mk info _ subs =>
    1 + b2n info.defList.isSome + b2n info.defStr.isSome + (if info.ty == .sec then 1 + footDecls subs else 0)
def footDecls : List Decl → Nat
  | [] => 0
  | d :: ds => footDecl d + footDecls ds
end

mutual
def footVal : Val → Nat
  | .str (some _) => 2        -- the cell and the string
  | .sec c => 1 + footCfg c   -- the cell and the section
  | _ => 1                    -- the cell (a user pointer's target belongs to the user)
def footVals : List Val → Nat
  | [] => 0
  | v :: vs => footVal v + footVals vs
def footOpt : Opt → Nat
  | .mk info _ subs vals comment =>
    1 + b2n info.defList.isSome + b2n info.defStr.isSome + b2n comment.isSome +
      (if info.ty == .sec then 1 + footDecls subs else 0) + footVals vals
def footOpts : List Opt → Nat
  | [] => 0
  | o :: os => footOpt o + footOpts os
/-- cfg_t, its name, title, file name, the option array, and everything in it -/
def footCfg : Cfg → Nat
  | .mk info opts => 3 + b2n info.title.isSome + b2n info.filename.isSome + footOpts opts
end

/-- number of `values` arrays that exist in the tree if every option with at least one value has one -/
def searchPathBlocks (dirs : List Bytes) : Nat := 2 * dirs.length

end Confuse
