import Confuse.Model.Api
import Confuse.Model.Ledger
/-!
# Store operations under a failing allocator (C18)

`fail = some k` means: the k-th allocation request (0-based, in the order the C function issues them)
made during this call returns NULL.  Modelled at allocation-sequence fidelity: `cfg_addval`,
`cfg_opt_setn{int,float,bool}`, `cfg_opt_setnstr`, `cfg_opt_setcomment`, and `cfg_setopt` for plain
(callback-free) int / float / bool / string options.
-/
namespace Confuse

structure FOut where
  opt : Opt
  ok : Bool
  allocs : Nat        -- allocation requests issued by the call (including a failed one)
deriving Inhabited

/-- `cfg_addval`: realloc of the pointer array (request 0), calloc of the cell (request 1) -/
def addvalF (o : Opt) (cell : Val) (fail : Option Nat) : FOut :=
  if fail == some 0 then ⟨o, false, 1⟩                       -- array not grown, nothing changed
  else if fail == some 1 then ⟨o, false, 2⟩                  -- array grown by one slot, count unchanged
  else ⟨.mk o.info { o.flags with modified := true } o.subs (o.vals ++ [cell]) o.comment, true, 2⟩

def shiftFail (fail : Option Nat) (n : Nat) : Option Nat :=
  match fail with
  | some k => if k ≥ n then some (k - n) else none
  | none => none

/-- `cfg_opt_getval` + the store of a number / boolean (no further allocation) -/
def setnNumF (o : Opt) (v : Val) (index : Nat) (fail : Option Nat) : FOut :=
  if index != 0 && !o.flags.list && !o.flags.multi then ⟨o, false, 0⟩
  else
    let o1 := (dropDefaults o).1
    if index ≥ o1.vals.length then
      let r := addvalF o1 v fail
      if r.ok then ⟨r.opt, true, r.allocs⟩ else ⟨r.opt, false, r.allocs⟩
    else ⟨.mk o1.info { o1.flags with modified := true } o1.subs (listSet o1.vals index v) o1.comment, true, 0⟩

/-- `cfg_opt_setnstr`: the value is copied FIRST (request 0 when it is not NULL; fix F45: it may be a string the
option owns), then the cell is found or added (`cfg_opt_getval`: index test, defaults dropped, `cfg_addval`) -/
def setnStrF (o : Opt) (s : Option Bytes) (index : Nat) (fail : Option Nat) : FOut :=
  let pre : Nat := if s.isSome then 1 else 0
  if pre == 1 && fail == some 0 then ⟨o, false, 1⟩                              -- strdup failed: nothing touched
  else if index != 0 && !o.flags.list && !o.flags.multi then ⟨o, false, pre⟩    -- refused; the copy is released
  else
    let o1 := (dropDefaults o).1
    let needCell := index ≥ o1.vals.length
    let r : FOut := if needCell then addvalF o1 (.str s) (shiftFail fail pre) else ⟨o1, true, 0⟩
    if !r.ok then ⟨r.opt, false, pre + r.allocs⟩                                -- no cell: the copy is released
    else
      let idx := if needCell then o1.vals.length else index
      ⟨.mk r.opt.info { r.opt.flags with modified := true } r.opt.subs (listSet r.opt.vals idx (.str s)) r.opt.comment, true, pre + r.allocs⟩

/-- `cfg_opt_setcomment` -/
def setcommentF (o : Opt) (c : Bytes) (fail : Option Nat) : FOut :=
  if fail == some 0 then ⟨o, false, 1⟩
  else ⟨.mk o.info { o.flags with comments := true, modified := true } o.subs o.vals (some c), true, 1⟩

/-- `cfg_setopt` for a callback-free int / float / bool / string option whose text converts.
A string is copied FIRST (request 0), before the option is touched (fix F42: the text may be a string the option
itself owns); then the cell (`cfg_addval`, two requests) when one is needed -/
def setoptPlainF (o : Opt) (cv : Conv) (fail : Option Nat) : FOut :=
  let pre : Nat := match cv with | .str _ => 1 | _ => 0
  if pre == 1 && fail == some 0 then ⟨o, false, 1⟩            -- strdup failed: nothing was touched
  else
    let o1 := (dropDefaults o).1
    let append := o1.vals.isEmpty || o1.flags.multi || o1.flags.list
    let cell0 : Val := match cv with | .str s => .str (some s) | .int n => .int n | .flt b => .flt b | .bool b => .bool b | _ => .int 0
    let r : FOut := if append then addvalF o1 cell0 (shiftFail fail pre) else ⟨o1, true, 0⟩
    if !r.ok then ⟨r.opt, false, pre + r.allocs⟩
    else
      let idx := if append then o1.vals.length else 0
      ⟨.mk r.opt.info { r.opt.flags with modified := true } r.opt.subs (listSet r.opt.vals idx cell0) r.opt.comment, true, pre + r.allocs⟩

/-- every cell of an option has the constructor of its type (a string cell may be NULL) -/
def cellsOk (o : Opt) : Bool :=
  o.vals.all (fun v => match o.ty, v with
    | .int, .int _ => true | .float, .flt _ => true | .bool, .bool _ => true | .str, .str _ => true
    | .ptr, .ptr _ => true | .sec, .sec _ => true | _, _ => false)

/-- one element of `cfg_addlist_internal`: the typed setter at index `nvalues` -/
def addOneF (o : Opt) (v : Val) (fail : Option Nat) : FOut :=
  match v with
  | .str s => setnStrF o s o.vals.length fail
  | _ => setnNumF o v o.vals.length fail

/-- `cfg_addlist_internal` under a failing allocator (since fix F40 it stops at the first element that cannot be
stored and reports failure) -/
def addlistF : Opt → List Val → Option Nat → FOut
  | o, [], _ => ⟨o, true, 0⟩
  | o, v :: vs, fail =>
    let r := addOneF o v fail
    if !r.ok then r
    else
      let r2 := addlistF r.opt vs (shiftFail fail r.allocs)
      ⟨r2.opt, r2.ok, r.allocs + r2.allocs⟩

end Confuse
