import Confuse.Model.Store
/-!
# Option references (lens into the tree) and the path mini-language
(`cfg_getopt_leaf`, `parse_title`, `cfg_getopt_secidx`)
-/
namespace Confuse

/-- reference to an option relative to a context: descend through (option index, instance index)
steps, then a leaf option index -/
structure OptRef where
  steps : List (Nat × Nat)
  leaf : Nat
deriving DecidableEq, Repr, Inhabited

def Cfg.child (c : Cfg) (oi ii : Nat) : Option Cfg :=
  match c.opts[oi]? with
  | some o => (match o.vals[ii]? with
    | some (.sec s) => some s
    | _ => none)
  | none => none

def Cfg.setChild (c : Cfg) (oi ii : Nat) (s : Cfg) : Cfg :=
  match c.opts[oi]? with
  | some o => c.setOpts (listSet c.opts oi (o.setVals (listSet o.vals ii (.sec s))))
  | none => c

def getOptAt : Cfg → List (Nat × Nat) → Nat → Option Opt
  | c, [], leaf => c.opts[leaf]?
  | c, (oi, ii) :: rest, leaf =>
    match c.child oi ii with
    | some s => getOptAt s rest leaf
    | none => none

def updOptAt (f : Opt → Opt) : Cfg → List (Nat × Nat) → Nat → Cfg
  | c, [], leaf =>
    (match c.opts[leaf]? with
     | some o => c.setOpts (listSet c.opts leaf (f o))
     | none => c)
  | c, (oi, ii) :: rest, leaf =>
    match c.child oi ii with
    | some s => c.setChild oi ii (updOptAt f s rest leaf)
    | none => c

def Cfg.getOpt (c : Cfg) (r : OptRef) : Option Opt := getOptAt c r.steps r.leaf
def Cfg.setOpt (c : Cfg) (r : OptRef) (o : Opt) : Cfg := updOptAt (fun _ => o) c r.steps r.leaf

/-- the context an option reference's last step lands in -/
def cfgAt : Cfg → List (Nat × Nat) → Option Cfg
  | c, [] => some c
  | c, (oi, ii) :: rest => (c.child oi ii).bind (fun s => cfgAt s rest)

/-! ## single-level lookup -/

def findOptIdx (nocase : Bool) (name : Bytes) : List Opt → Nat → Option Nat
  | [], _ => none
  | o :: os, i => if titleEq nocase o.name name then some i else findOptIdx nocase name os (i + 1)

/-- `cfg_getopt_leaf` -/
def getoptLeaf (c : Cfg) (name : Bytes) : Option Nat := findOptIdx c.flags.nocase name c.opts 0

/-! ## `parse_title` -/

/-- quoted form, after the opening quote: returns the unescaped title and the number of bytes
consumed including the closing quote -/
def parseQuoted : Bytes → Bytes → Nat → Option (Bytes × Nat)
  | [], _, _ => none
  | c :: cs, acc, n =>
    if c = c_sq then some (acc.reverse, n + 1)
    else if c = c_bs then
      (match cs with
       | d :: ds => if d = c_sq || d = c_bs then parseQuoted ds (d :: acc) (n + 2) else none
       | [] => none)
    else parseQuoted cs (c :: acc) (n + 1)

/-- returns the title and `*len` -/
def parseTitle (name : Bytes) : Option (Bytes × Nat) :=
  match name with
  | c :: cs =>
    if c = c_sq then (parseQuoted cs [] 1)
    else
      let t := name.takeWhile (· != c_pipe)
      if t.isEmpty then none else some (t, t.length)
  | [] => none

structure PathOut where
  ref : Option OptRef       -- the option (NULL when unresolved)
  index : Int               -- `*index` (section form only)
  diags : List DiagCls
deriving Repr, Inhabited

def isSep (c : Nat) : Bool := c == c_pipe || c == c_eq

/-- the section option a path component names (`cfg_getopt_leaf` + type test) -/
def pathOpt (sec : Cfg) (secname : Bytes) : Option (Nat × Opt) :=
  match getoptLeaf sec secname with
  | some oi => (match sec.opts[oi]? with
    | some o => if o.ty == .sec then some (oi, o) else none
    | none => none)
  | none => none

/-- the qualifier after a section name (`=index`, `=title`, `='quoted title'` or nothing): the
instance index it selects (-1: none) and the length of name plus qualifier -/
def pathQual (o : Opt) (after : Bytes) (len : Nat) : Int × Nat :=
  if after.head? != some c_eq then (0, len)
  else if !o.flags.multi then (-1, len)
  else
    match parseTitle (after.drop 1) with
    | none => (-1, len)      -- `len` was clobbered by parse_title; sec is NULL anyway
    | some (t, tl) =>
      if o.flags.title then
        ((match gettsecidx o t with | some k => (k : Int) | none => -1), len + 1 + tl)
      else
        ((if (strtolC t 0).rest.isEmpty then (strtolC t 0).val else -1), len + 1 + tl)

/-- instance `i` of a section option (`cfg_opt_getnsec`) -/
def pathInst (o : Opt) (i : Int) : Option (Nat × Cfg) :=
  if i ≥ 0 && i.toNat < o.vals.length then
    (match o.vals[i.toNat]? with | some (.sec s) => some (i.toNat, s) | _ => none)
  else none

/-- `cfg_getopt_secidx(cfg, name, index)`; `wantIndex` = "index != NULL".  `fuel` bounds the
number of path components.  Diagnostics are the ones issued when the start context does not have
IGNORE_UNKNOWN (see `getoptSecidx`). -/
def secidxLoop (wantIndex : Bool) : Nat → Cfg → List (Nat × Nat) → Option OptRef → Int → Bytes → PathOut
  | 0, _, _, _, _, _ => ⟨none, -1, []⟩
  | fuel + 1, sec, steps, lastOpt, lastIdx, name =>
    let finish : PathOut :=
      if wantIndex then ⟨lastOpt, lastIdx, []⟩
      else match getoptLeaf sec name with
        | some i => ⟨some ⟨steps, i⟩, -1, []⟩
        | none => ⟨none, -1, [.noSuchOption]⟩
    if name.isEmpty then finish
    else
      let secname := name.takeWhile (fun c => !isSep c)
      let len := secname.length
      let after := name.drop len
      if !wantIndex && after.isEmpty then finish
      -- an empty step name (`sec|=x`, a leading `=` or `|`) names no section (fix F46: `cfg_rmsec(cfg, "sec|=x")` removed `sec`)
      else if len == 0 then (if wantIndex then ⟨none, lastIdx, []⟩ else finish)
      else
        -- the do { } while(0) block
        match pathOpt sec secname with
        | none => ⟨none, -1, [.noSubSection]⟩
        | some (oi, o) =>
          let q := pathQual o after len
          match pathInst o q.1 with
          | none => ⟨none, q.1, if !o.flags.multi then [.noSuchOption] else [.noSubSection]⟩
          | some (ii, s) =>
            let name1 := name.drop q.2
            let seps := (name1.takeWhile (· == c_pipe)).length
            -- a step ends at a separator or at the end of the path, not in the middle of a word: after a quoted
            -- title nothing but `|` may follow (fix F44: `sec='a'b`, `sec='a'=` resolved)
            if !name1.isEmpty && seps == 0 then ⟨none, q.1, [.noSuchOption]⟩
            else if wantIndex && seps > 0 && (name1.drop seps).isEmpty then ⟨none, q.1, []⟩
            else
              secidxLoop wantIndex fuel s (steps ++ [(oi, ii)]) (some ⟨steps, oi⟩) q.1 (name1.drop seps)

/-- the keys of a free-form section are any strings: a name that looks like a path is a key first (fix F49: a repeated
key `"a|b"` was not found again and added a second time) -/
def keyFirst (c : Cfg) (name : Bytes) (wantIndex : Bool) : Option Nat :=
  if !wantIndex && c.flags.keystrval then getoptLeaf c name else none

/-- the resolver proper reports what it would say; whether anything is said at all is decided by
the flags of the context the lookup started from: nothing with `CFGF_IGNORE_UNKNOWN`, and nothing
when a free-form (`CFGF_KEYSTRVAL`) section is asked for an option — there any name is a key, also
one that looks like a path, and the parser adds it -/
def getoptSecidx (c : Cfg) (name : Bytes) (wantIndex : Bool) : PathOut :=
  if name.isEmpty then ⟨none, -1, []⟩
  else
    match keyFirst c name wantIndex with
    | some i => ⟨some ⟨[], i⟩, -1, []⟩
    | none =>
      let r := secidxLoop wantIndex (name.length + 1) c [] none (-1) name
      if c.flags.ignoreUnknown || (!wantIndex && c.flags.keystrval) then { r with diags := [] } else r

/-- `cfg_getopt` -/
def getoptPath (c : Cfg) (name : Bytes) : PathOut := getoptSecidx c name false

end Confuse
