import Confuse.Basic
/-!
# Scanner model (`src/lexer.l`)

Each flex start condition is compiled by hand into a structurally recursive scanner over the
remaining input.  Longest-match / first-rule conflicts are resolved statically; the comments
say which rule wins and why.  A token carries the number of `cfg->line++` actions executed
while it (and the white space in front of it) was scanned.
-/
namespace Confuse

/-- environment oracle: `getenv` -/
abbrev Env := Bytes → Option Bytes

inductive LexErr
  | unterminatedString | unterminatedComment | badOctal | badEscape
deriving DecidableEq, Repr, Inhabited

inductive Tok
  | str (v : Bytes)        -- CFGT_STR; yylval as the parser's strdup() sees it
  | comment (v : Bytes)    -- CFGT_COMMENT, trimmed
  | lbrace | rbrace | lparen | rparen | eq | pluseq | comma
  | eof
  | err (e : LexErr)       -- `return 0` after cfg_error()
deriving DecidableEq, Repr, Inhabited

structure LexOut where
  tok : Tok
  nl : Nat
  rest : Bytes
deriving DecidableEq, Repr, Inhabited

/-! ## `${NAME}` / `${NAME:-default}` -/

/-- split the text between `${` and `}` at the first `:`; a default exists only if that colon is
followed by `-` (`e = strchr(yytext+2, ':'); if (e && e[1] == '-')`) -/
def envSplit (pre : Bytes) : Bytes → (Bytes × Option Bytes)
  | [] => (pre.reverse, none)
  | c :: cs =>
    if c = c_colon then
      (match cs with
       | d :: ds => if d = c_minus then (pre.reverse, some ds) else (pre.reverse ++ c :: cs, none)
       | [] => (pre.reverse ++ [c], none))
    else envSplit (c :: pre) cs

/-- newlines in a piece of text -/
def nlCount (b : Bytes) : Nat := (b.filter (· == c_nl)).length

def envLookup (env : Env) (inside : Bytes) : Bytes :=
  let (name, dflt) := envSplit [] inside
  match env name with
  | some v => v
  | none => dflt.getD []

def hasRbr : Bytes → Bool
  | [] => false
  | c :: cs => c = c_rbr || hasRbr cs

/-! ## double-quoted strings -/

def simpleEsc (c : Nat) : Option Nat :=
  if c = 110 then some 10 else if c = 114 then some 13 else if c = 98 then some 8
  else if c = 102 then some 12 else if c = 97 then some 7 else if c = 101 then some 27
  else if c = 116 then some 9 else if c = 118 then some 11 else none

inductive DqMode where
  | plain
  | esc                                         -- after a backslash
  | digits (n : Nat) (allOct : Bool) (v : Nat)  -- backslash + n decimal digits so far
  | hex0                                        -- after `\x`
  | hex1 (v : Nat)                              -- after `\x` + one hex digit
  | envOpen                                     -- after `$`, the `{` is next
  | env (inside : Bytes)                        -- inside `${`, reversed
deriving DecidableEq, Repr, Inhabited

structure DqSt where
  mode : DqMode
  acc : Bytes     -- reversed
  nl : Nat
deriving DecidableEq, Repr, Inhabited

/-- `\\[0-7]{1,3}` against `\\[0-9]+`: the octal rule wins iff the whole decimal run has at most
three digits, all octal (same length, earlier rule); otherwise the bad-escape rule is longer -/
def finDigits (n : Nat) (allOct : Bool) (v : Nat) : Except LexErr Nat :=
  if n ≤ 3 && allOct then (if v > 255 then .error .badOctal else .ok v)
  else .error .badEscape

def dqPlain (acc : Bytes) (nl : Nat) (c : Nat) (cs : Bytes) : DqSt ⊕ LexOut :=
  if c = c_dq then .inr ⟨.str (cstr acc.reverse), nl, cs⟩
  else if c = c_nl then .inl ⟨.plain, c_nl :: acc, nl + 1⟩
  else if c = c_bs then .inl ⟨.esc, acc, nl⟩
  else if c = c_dollar then
    match cs with
    | d :: ds => if d = c_lbr && hasRbr ds then .inl ⟨.envOpen, acc, nl⟩ else .inl ⟨.plain, c :: acc, nl⟩
    | [] => .inl ⟨.plain, c :: acc, nl⟩
  else .inl ⟨.plain, c :: acc, nl⟩

def dqStep (env : Env) (s : DqSt) (c : Nat) (cs : Bytes) : DqSt ⊕ LexOut :=
  match s.mode with
  | .plain => dqPlain s.acc s.nl c cs
  | .envOpen => .inl ⟨.env [], s.acc, s.nl⟩
  | .env inside =>
      if c = c_rbr then .inl ⟨.plain, (envLookup env inside.reverse).reverse ++ s.acc, s.nl⟩
      else .inl ⟨.env (c :: inside), s.acc, if c = c_nl then s.nl + 1 else s.nl⟩   -- a newline inside `${…}` is a line (fix F39)
  | .esc =>
      if c = c_nl then .inl ⟨.plain, s.acc, s.nl + 1⟩
      else if isDec c then .inl ⟨.digits 1 (isOct c) (c - 48), s.acc, s.nl⟩
      else if c = 120 then .inl ⟨.hex0, s.acc, s.nl⟩
      else match simpleEsc c with
        | some v => .inl ⟨.plain, v :: s.acc, s.nl⟩
        | none => .inl ⟨.plain, c :: s.acc, s.nl⟩
  | .hex0 =>
      if isHex c then .inl ⟨.hex1 (hexVal c), s.acc, s.nl⟩
      else dqPlain (120 :: s.acc) s.nl c cs        -- `\x` without digits is `\\.`
  | .hex1 v =>
      if isHex c then .inl ⟨.plain, (v * 16 + hexVal c) :: s.acc, s.nl⟩
      else dqPlain (v :: s.acc) s.nl c cs
  | .digits n ao v =>
      if isDec c then .inl ⟨.digits (n + 1) (ao && isOct c) (v * 8 + (c - 48)), s.acc, s.nl⟩
      else match finDigits n ao v with
        | .ok b => dqPlain (b :: s.acc) s.nl c cs
        | .error e => .inr ⟨.err e, s.nl, c :: cs⟩

/-- end of input inside the string: a pending digit escape is still acted on (and may report its
own error first); everything else is "unterminated string constant" -/
def dqEof (s : DqSt) : LexOut :=
  match s.mode with
  | .digits n ao v =>
      match finDigits n ao v with
      | .ok _ => ⟨.err .unterminatedString, s.nl, []⟩
      | .error e => ⟨.err e, s.nl, []⟩
  | _ => ⟨.err .unterminatedString, s.nl, []⟩

def dqRun (env : Env) : DqSt → Bytes → LexOut
  | s, [] => dqEof s
  | s, c :: cs =>
    match dqStep env s c cs with
    | .inl s' => dqRun env s' cs
    | .inr out => out

/-! ## single-quoted strings -/

inductive SqMode | plain | esc
deriving DecidableEq, Repr, Inhabited

def sqRun : SqMode → Bytes → Nat → Bytes → LexOut
  | _, _, nl, [] => ⟨.err .unterminatedString, nl, []⟩
  | .plain, acc, nl, c :: cs =>
    if c = c_sq then ⟨.str (cstr acc.reverse), nl, cs⟩
    else if c = c_nl then sqRun .plain (c_nl :: acc) (nl + 1) cs
    else if c = c_bs then sqRun .esc acc nl cs
    else sqRun .plain (c :: acc) nl cs
  | .esc, acc, nl, c :: cs =>
    if c = c_nl then sqRun .plain acc (nl + 1) cs                 -- continuation
    else if c = c_bs || c = c_sq then sqRun .plain (c :: acc) nl cs
    else sqRun .plain (c :: c_bs :: acc) nl cs                    -- keeps the backslash

/-! ## C-style comments -/

/-- `[ \t]*"*"+"/"` matches here; returns what follows it -/
def commentEnd (inp : Bytes) : Option Bytes :=
  let r := inp.dropWhile isBlank
  match r with
  | c :: _ =>
    if c = c_star then
      match r.dropWhile (· == c_star) with
      | d :: ds => if d = c_slash then some ds else none
      | [] => none
    else none
  | [] => none

def commentRun : Bytes → Nat → Bytes → LexOut
  | _, nl, [] => ⟨.err .unterminatedComment, nl, []⟩
  | acc, nl, c :: cs =>
    match commentEnd (c :: cs) with
    | some rest => ⟨.comment (trimWs acc.reverse), nl, rest⟩
    | none =>
      if c = c_nl then commentRun (c_nl :: acc) (nl + 1) cs
      else commentRun (c :: acc) nl cs

/-! ## INITIAL -/

/-- `"#"{1,}.*` / `"/"{2,}.*`: `inp` starts at the first marker -/
def lineComment (marker : Nat) (nl : Nat) (inp : Bytes) : LexOut :=
  let line := inp.takeWhile (· != c_nl)
  let rest := inp.dropWhile (· != c_nl)
  ⟨.comment (trimWs (cstr (line.dropWhile (· == marker)))), nl, rest⟩

def lexWord (nl : Nat) (inp : Bytes) : LexOut :=
  ⟨.str (cstr (inp.takeWhile isWordByte)), nl, inp.dropWhile isWordByte⟩

def lexInitial (env : Env) : Nat → Bytes → LexOut
  | nl, [] => ⟨.eof, nl, []⟩
  | nl, c :: cs =>
    if c = c_sp || c = c_tab then lexInitial env nl cs
    else if c = c_nl then lexInitial env (nl + 1) cs
    else if c = c_hash then lineComment c_hash nl (c :: cs)
    else if c = c_slash then
      match cs with
      | d :: ds =>
        if d = c_slash then lineComment c_slash nl (c :: cs)
        else if d = c_star then commentRun [] nl ds
        else lexWord nl (c :: cs)
      | [] => lexWord nl (c :: cs)
    else if c = c_lbr then ⟨.lbrace, nl, cs⟩
    else if c = c_rbr then ⟨.rbrace, nl, cs⟩
    else if c = c_lp then ⟨.lparen, nl, cs⟩
    else if c = c_rp then ⟨.rparen, nl, cs⟩
    else if c = c_eq then ⟨.eq, nl, cs⟩
    else if c = c_comma then ⟨.comma, nl, cs⟩
    else if c = c_plus then
      match cs with
      | d :: ds => if d = c_eq then ⟨.pluseq, nl, ds⟩ else lexInitial env nl cs
      | [] => lexInitial env nl cs
    else if c = c_dq then dqRun env ⟨.plain, [], nl⟩ cs
    else if c = c_sq then sqRun .plain [] nl cs
    else if c = c_dollar then
      match cs with
      | d :: ds =>
        if d = c_lbr && hasRbr ds then
          ⟨.str (cstr (envLookup env (ds.takeWhile (· != c_rbr)))), nl + nlCount (ds.takeWhile (· != c_rbr)),
           (ds.dropWhile (· != c_rbr)).drop 1⟩
        else lexWord nl (c :: cs)
      | [] => lexWord nl (c :: cs)
    else if isWordByte c then lexWord nl (c :: cs)
    else lexInitial env nl cs          -- `*`, CR: eaten by the catch-all rule

/-- all tokens of one buffer (fuel = an upper bound on the number of tokens) -/
def lexAll (env : Env) : Nat → Bytes → List (Tok × Nat)
  | 0, _ => []
  | fuel + 1, inp =>
    let o := lexInitial env 0 inp
    match o.tok with
    | .eof => [(.eof, o.nl)]
    | .err e => [(.err e, o.nl)]
    | t => (t, o.nl) :: lexAll env fuel o.rest

def lexBuf (env : Env) (inp : Bytes) : List (Tok × Nat) := lexAll env (inp.length + 1) inp

end Confuse
