import Confuse.Model.Lexer
import Confuse.Model.Path
/-!
# Parser model: `cfg_parse_internal` as an explicit-stack token machine

A frame per open section holds exactly the C locals.  The section being filled is held *by
value* in its frame and written back into the parent when the frame is popped (on `}` or when
an error unwinds), which is equivalent to the C code's in-place update because a suspended
parent is never touched.  The C call-stack depth is the height of `frames`.
-/
namespace Confuse

inductive PState | s0 | s1 | s2 | s3 | s4 | s5 | s6 | s7 | s8 | s9 | s10 | s11 | s12 | s13 | s14
deriving DecidableEq, Repr, Inhabited

inductive Ignore | none | rparen | rbrace
deriving DecidableEq, Repr, Inhabited

structure Frame where
  cfg : Cfg
  level : Nat := 0
  state : PState := .s0
  opt : Option OptRef := none
  comment : Option Bytes := none
  opttitle : Option Bytes := none
  funcargs : List Bytes := []
  ignore : Ignore := .none
  depth : Nat := 0
  numValues : Nat := 0
  back : Option (OptRef × Nat) := none      -- where this section lives in the parent frame
deriving Inhabited

inductive Status | running | accepted | rejected | outOfFuel
deriving DecidableEq, Repr, Inhabited

/-- an input source: the bytes not yet scanned and, for an included file, what to restore -/
structure Src where
  rest : Bytes
  savedFile : Option Bytes := none
  savedLine : Nat := 0
deriving Inhabited

structure PM where
  frames : List Frame           -- innermost first
  srcs : List Src               -- innermost first; the last one is the top-level source
  status : Status := .running
  diags : List Diag := []       -- newest first
  trace : List CbCall := []     -- newest first
  pendingInclude : Option Bytes := none
  maxDepth : Nat := 1           -- high-water mark of `frames.length` (C recursion depth)
deriving Inhabited

def PM.k (m : PM) : Nat := m.trace.length

def Frame.diag (f : Frame) (cls : DiagCls) : Diag := ⟨f.cfg.info.filename, f.cfg.info.line, cls⟩

def PM.addDiags (m : PM) (f : Frame) (cs : List DiagCls) : PM :=
  { m with diags := (cs.map f.diag).reverse ++ m.diags }

def PM.addCalls (m : PM) (cs : List CbCall) : PM := { m with trace := cs.reverse ++ m.trace }

/-- write a finished (or abandoned) child section back into its parent -/
def writeBack (parent child : Frame) : Frame :=
  match child.back with
  | some (r, i) =>
    (match parent.cfg.getOpt r with
     | some o => { parent with cfg := parent.cfg.setOpt r (o.setVals (listSet o.vals i (.sec child.cfg))) }
     | none => parent)
  | none => parent

/-- `goto error` in every active call: all frames unwind, each keeping what it had stored -/
def collapseInto (child : Frame) : List Frame → Frame
  | [] => child
  | p :: rest => collapseInto (writeBack p child) rest

def collapse : List Frame → Option Frame
  | [] => none
  | f :: rest => some (collapseInto f rest)

def PM.reject (m : PM) (top : Frame) (rest : List Frame) : PM :=
  match collapse (top :: rest) with
  | some root => { m with frames := [root], status := .rejected }
  | none => { m with status := .rejected }

def PM.rejectWith (m : PM) (top : Frame) (rest : List Frame) (cls : DiagCls) : PM :=
  (m.addDiags top [cls]).reject top rest

/-- `cfg_handle_deprecated` for the frame's current option -/
def handleDeprecated (m : PM) (f : Frame) : PM × Frame :=
  match f.opt with
  | some r =>
    (match f.cfg.getOpt r with
     | some o =>
       if o.flags.deprecated then
         if o.flags.drop then
           let (o', ev) := freeValue o
           ((m.addDiags f [.deprecatedDrop]).addCalls ev, { f with cfg := f.cfg.setOpt r o' })
         else (m.addDiags f [.deprecatedKeep], f)
       else (m, f)
     | none => (m, f))
  | none => (m, f)

/-- `opt->validcb` after a store; `none` = the callback vetoed -/
def runValid (orc : Oracle) (m : PM) (f : Frame) : Option PM :=
  match f.opt with
  | some r =>
    (match f.cfg.getOpt r with
     | some o =>
       if o.info.validCb then
         let call := CbCall.valid o.name (o.vals.map Val.snap)
         if orc m.k call = .fail then none else some (m.addCalls [call])
       else some m
     | none => some m)
  | none => some m

def vetoed (_orc : Oracle) (m : PM) (f : Frame) : PM :=
  match f.opt with
  | some r =>
    (match f.cfg.getOpt r with
     | some o => (m.addCalls [CbCall.valid o.name (o.vals.map Val.snap)]).addDiags f [.callback]
     | none => m)
  | none => m

/-- `cfg_opt_setcomment(opt, comment)` with the pending comment, then drop it -/
def inheritComment (f : Frame) : Frame :=
  match f.comment, f.opt with
  | some c, some r =>
    (match f.cfg.getOpt r with
     | some o =>
       { f with cfg := f.cfg.setOpt r (.mk o.info { o.flags with comments := true, modified := true } o.subs o.vals (some c)),
                comment := none }
     | none => { f with comment := none })
  | _, _ => { f with comment := none }

/-- states 2 and 3 on a value token: `cfg_setopt`, validation, annotation -/
def storeValue (orc : Oracle) (m : PM) (f : Frame) (rest : List Frame) (v : Bytes) (next : PState) : PM :=
  match f.opt with
  | none => m.reject f rest       -- cfg_setopt(cfg, NULL, ..) fails
  | some r =>
    match f.cfg.getOpt r with
    | none => m.reject f rest
    | some o =>
      let out := setopt orc m.k f.cfg.info o (some v)
      let f1 := { f with cfg := f.cfg.setOpt r out.opt }
      let m1 := (m.addCalls out.calls).addDiags f1 out.diags
      match out.res with
      | none => m1.reject f1 rest
      | some _ =>
        match runValid orc m1 f1 with
        | none => (vetoed orc m1 f1).reject f1 rest
        | some m2 =>
          let f2 := inheritComment f1
          let f3 := { f2 with numValues := f2.numValues + 1, state := next }
          { m2 with frames := f3 :: rest }

def callFunction (orc : Oracle) (m : PM) (f : Frame) (rest : List Frame) : PM :=
  match f.opt with
  | none => m.reject f rest
  | some r =>
    match f.cfg.getOpt r with
    | none => m.reject f rest
    | some o =>
      let f1 := { f with funcargs := [], state := .s0 }
      match o.info.func with
      | .incl =>
        (match f.funcargs with
         | [a] => { m with frames := f1 :: rest, pendingInclude := some a }
         | _ => m.rejectWith f1 rest .includeArgs)
      | .user =>
        let call := CbCall.func o.name f.funcargs
        let m1 := m.addCalls [call]
        if orc m.k call = .fail then (m1.addDiags f1 [.callback]).reject f1 rest
        else { m1 with frames := f1 :: rest }
      | .none => m.reject f1 rest

/-- the context `p` after its section `s` was closed: it goes on at the section's line and under the section's
file name (the section may end in another source than it began in: an included file that closes it, or one that
ends inside it) -/
def Cfg.afterSection (p s : Cfg) : Cfg :=
  p.setInfo { p.info with line := s.info.line,
                          filename := (match s.info.filename with | some n => some n | none => p.info.filename) }

@[simp] theorem Cfg.afterSection_line (p s : Cfg) : (p.afterSection s).line = s.line := by
  cases p; cases s; rfl
@[simp] theorem Cfg.afterSection_opts (p s : Cfg) : (p.afterSection s).opts = p.opts := by
  cases p; rfl
@[simp] theorem Cfg.afterSection_flags (p s : Cfg) : (p.afterSection s).flags = p.flags := by
  cases p; rfl

def step_s0 (orc : Oracle) (m : PM) (f : Frame) (rest : List Frame) (tok : Tok) : PM :=
  let (m, f) := handleDeprecated m f
  (match tok with
   | .rbrace =>
     (match rest with
      | [] => m.rejectWith f rest .unexpectedBrace
      | p :: rest' =>
        if f.level == 0 then m.rejectWith f rest .unexpectedBrace
        else
          let p1 := writeBack p f
          -- the enclosing context goes on where the section ended: its line, and (fix F38) its file name too -
          -- the section may have been closed in another source than it was opened in
          let p2 := { p1 with cfg := p1.cfg.afterSection f.cfg }
          match runValid orc m p2 with
          | none => (vetoed orc m p2).reject p2 rest'
          | some m1 => { m1 with frames := { p2 with state := .s0 } :: rest' })
   | .comment v =>
     if f.cfg.flags.comments then { m with frames := { f with comment := some v } :: rest }
     else { m with frames := f :: rest }
   | .str v =>
     let r := getoptPath f.cfg v
     let m := m.addDiags f r.diags
     (match r.ref with
      | none =>
        if f.cfg.flags.ignoreUnknown then { m with frames := { f with opt := none, state := .s10 } :: rest }
        else if f.cfg.flags.keystrval then
          -- cfg_addopt: a zeroed string option appended to the array
          let o : Opt := .mk { name := v, ty := .str } {} [] [] none
          let cfg' := f.cfg.setOpts (f.cfg.opts ++ [o])
          { m with frames := { f with cfg := cfg', opt := some ⟨[], f.cfg.opts.length⟩, state := .s1 } :: rest }
        else if v.isEmpty then m.rejectWith { f with opt := none } rest .noSuchOption
        else m.reject { f with opt := none } rest
      | some ref =>
        (match f.cfg.getOpt ref with
         | none => m.reject f rest
         | some o =>
           let st : PState :=
             if o.ty == .sec then (if o.flags.title then .s6 else .s5)
             else if o.ty == .func then .s7 else .s1
           { m with frames := { f with opt := some ref, state := st } :: rest }))
   | _ => m.rejectWith f rest .unexpectedToken)

def step_s1 (orc : Oracle) (m : PM) (f : Frame) (rest : List Frame) (tok : Tok) : PM :=
  (match f.opt with
   | none => m.reject f rest
   | some r =>
     match f.cfg.getOpt r with
     | none => m.reject f rest
     | some o =>
       let go (reset : Bool) : PM :=
         let o' := o.setFlags { o.flags with reset := reset, modified := true }
         let f' := { f with cfg := f.cfg.setOpt r o',
                            state := if o.flags.list then .s3 else .s2,
                            numValues := if o.flags.list then 0 else f.numValues }
         { m with frames := f' :: rest }
       match tok with
       | .pluseq => if !o.flags.list then m.rejectWith f rest .appendNonList else go false
       | .eq => go true
       | _ => m.rejectWith f rest .missingEq)

def step_s2 (orc : Oracle) (m : PM) (f : Frame) (rest : List Frame) (tok : Tok) : PM :=
  let isList : Bool := match f.opt.bind f.cfg.getOpt with | some o => o.flags.list | none => false
  (match tok with
   | .rbrace =>
     if isList then
       (match f.opt, f.opt.bind f.cfg.getOpt with
        | some r, some o =>
          if f.numValues == 0 && o.flags.reset then
            let (o', ev) := freeValue o
            { (m.addCalls ev) with frames := { f with cfg := f.cfg.setOpt r o', state := .s0 } :: rest }
          else { m with frames := { f with state := .s0 } :: rest }
        | _, _ => { m with frames := { f with state := .s0 } :: rest })
     else m.rejectWith f rest .unexpectedToken
   | .str v => storeValue orc m f rest v (if isList then .s4 else .s0)
   | _ => m.rejectWith f rest .unexpectedToken)

def step_s3 (orc : Oracle) (m : PM) (f : Frame) (rest : List Frame) (tok : Tok) : PM :=
  (match tok with
   | .lbrace => { m with frames := { f with state := .s2 } :: rest }
   | .str v => storeValue orc m f rest v .s0
   | _ => m.rejectWith f rest .unexpectedToken)

def step_s4 (orc : Oracle) (m : PM) (f : Frame) (rest : List Frame) (tok : Tok) : PM :=
  (match tok with
   | .comma => { m with frames := { f with state := .s2 } :: rest }
   | .rbrace =>
     (match runValid orc m f with
      | none => (vetoed orc m f).reject f rest
      | some m1 => { m1 with frames := { f with state := .s0 } :: rest })
   | _ => m.rejectWith f rest .unexpectedToken)

def step_s5 (orc : Oracle) (m : PM) (f : Frame) (rest : List Frame) (tok : Tok) : PM :=
  (match tok with
   | .lbrace =>
     (match f.opt, f.opt.bind f.cfg.getOpt with
      | some r, some o =>
        let out := setopt orc m.k f.cfg.info o f.opttitle
        let f1 := { f with cfg := f.cfg.setOpt r out.opt }
        let m1 := (m.addCalls out.calls).addDiags f1 out.diags
        (match out.res with
         | none => m1.reject f1 rest
         | some i =>
           match out.opt.vals[i]? with
           | some (.sec s) =>
             let fn := match f1.cfg.info.filename with | some n => some n | none => s.info.filename
             let s1 := s.setInfo { s.info with line := f1.cfg.line, filename := fn }
             let child : Frame := { cfg := s1, level := f.level + 1, back := some (r, i) }
             let f2 := { f1 with opttitle := none }
             { m1 with frames := child :: f2 :: rest, maxDepth := max m1.maxDepth (rest.length + 2) }
           | _ => m1.reject f1 rest)
      | _, _ => m.reject f rest)
   | _ => m.rejectWith f rest .missingBrace)

def step_s6 (orc : Oracle) (m : PM) (f : Frame) (rest : List Frame) (tok : Tok) : PM :=
  (match tok with
   | .str v => { m with frames := { f with opttitle := some v, state := .s5 } :: rest }
   | _ => m.rejectWith f rest .missingTitle)

def step_s7 (orc : Oracle) (m : PM) (f : Frame) (rest : List Frame) (tok : Tok) : PM :=
  (match tok with
   | .lparen => { m with frames := { f with state := .s8 } :: rest }
   | _ => m.rejectWith f rest .missingParen)

def step_s8 (orc : Oracle) (m : PM) (f : Frame) (rest : List Frame) (tok : Tok) : PM :=
  (match tok with
   | .rparen => callFunction orc m f rest
   | .str v => { m with frames := { f with funcargs := f.funcargs ++ [v], state := .s9 } :: rest }
   | _ => m.rejectWith f rest .funcSyntax)

def step_s9 (orc : Oracle) (m : PM) (f : Frame) (rest : List Frame) (tok : Tok) : PM :=
  (match tok with
   | .rparen => callFunction orc m f rest
   | .comma => { m with frames := { f with state := .s8 } :: rest }
   | _ => m.rejectWith f rest .funcSyntax)

def step_s10 (orc : Oracle) (m : PM) (f : Frame) (rest : List Frame) (tok : Tok) : PM :=
  let f := { f with comment := none }
  (match tok with
   | .pluseq => { m with frames := { f with state := .s14 } :: rest }
   | .eq => { m with frames := { f with state := .s14 } :: rest }
   | .lparen => { m with frames := { f with ignore := .rparen, state := .s13 } :: rest }
   | .lbrace => { m with frames := { f with depth := 1, state := .s12 } :: rest }
   | .str _ => { m with frames := { f with state := .s11 } :: rest }
   | _ => m.rejectWith f rest .unexpectedToken)

def step_s11 (orc : Oracle) (m : PM) (f : Frame) (rest : List Frame) (tok : Tok) : PM :=
  (match tok with
   | .lbrace => { m with frames := { f with depth := 1, state := .s12 } :: rest }
   | _ => m.rejectWith f rest .unexpectedToken)

def step_s12 (orc : Oracle) (m : PM) (f : Frame) (rest : List Frame) (tok : Tok) : PM :=
  (match tok with
   | .lbrace => { m with frames := { f with depth := f.depth + 1 } :: rest }
   | .rbrace =>
     if f.depth ≤ 1 then { m with frames := { f with depth := 0, state := .s0 } :: rest }
     else { m with frames := { f with depth := f.depth - 1 } :: rest }
   | _ => m)

def step_s13 (orc : Oracle) (m : PM) (f : Frame) (rest : List Frame) (tok : Tok) : PM :=
  let hit : Bool := match tok, f.ignore with
    | .rparen, .rparen => true
    | .rbrace, .rbrace => true
    | _, _ => false
  if hit then { m with frames := { f with ignore := .none, state := .s0 } :: rest } else m

def step_s14 (orc : Oracle) (m : PM) (f : Frame) (rest : List Frame) (tok : Tok) : PM :=
  (match tok with
   | .lbrace => { m with frames := { f with ignore := .rbrace, state := .s13 } :: rest }
   | .str _ => { m with frames := { f with state := .s0 } :: rest }
   | _ => m.rejectWith f rest .unexpectedToken)

/-- one token.  `nl` = line increments the scanner performed while producing it. -/
def pstep (orc : Oracle) (m : PM) (tok : Tok) (nl : Nat) : PM :=
  if m.status != .running then m else
  match m.frames with
  | [] => m
  | f0 :: rest =>
    let f := { f0 with cfg := f0.cfg.setLine (f0.cfg.line + nl) }
    let m := { m with frames := f :: rest }
    match tok with
    | .err e =>
      let cls : DiagCls := match e with
        | .unterminatedString => .unterminatedString | .unterminatedComment => .unterminatedComment
        | .badOctal => .badOctal | .badEscape => .badEscape
      m.rejectWith f rest cls
    | .eof =>
      if f.state != .s0 || f.level > 0 then m.rejectWith f rest .prematureEof
      else
        let (m1, f1) := handleDeprecated m f
        { m1 with frames := [f1], status := .accepted }
    | tok =>
      if (match tok with | .comment _ => true | _ => false) && f.state != .s0 then m
      else
      match f.state with
      | .s0 => step_s0 orc m f rest tok
      | .s1 => step_s1 orc m f rest tok
      | .s2 => step_s2 orc m f rest tok
      | .s3 => step_s3 orc m f rest tok
      | .s4 => step_s4 orc m f rest tok
      | .s5 => step_s5 orc m f rest tok
      | .s6 => step_s6 orc m f rest tok
      | .s7 => step_s7 orc m f rest tok
      | .s8 => step_s8 orc m f rest tok
      | .s9 => step_s9 orc m f rest tok
      | .s10 => step_s10 orc m f rest tok
      | .s11 => step_s11 orc m f rest tok
      | .s12 => step_s12 orc m f rest tok
      | .s13 => step_s13 orc m f rest tok
      | .s14 => step_s14 orc m f rest tok

/-- the machine over a fixed token list (one buffer, no includes) -/
def parseToks (orc : Oracle) (m : PM) (ts : List (Tok × Nat)) : PM :=
  ts.foldl (fun m t => pstep orc m t.1 t.2) m

/-! ## files, search path, includes -/

inductive FileKind | reg | dir | dev      -- dev: a character device that reads as empty (/dev/null)
deriving DecidableEq, Repr, Inhabited

structure PEnv where
  env : Env
  fs : Bytes → Option (FileKind × Bytes)   -- path → kind and content
  passwd : Option Bytes → Option Bytes     -- `none` = the effective user; result = home directory
  maxInc : Nat := 10
  dirs : List Bytes := []                  -- search path, newest first (as the C list)

def isRegular (pe : PEnv) (p : Bytes) : Bool :=
  match pe.fs p with | some (.reg, _) => true | _ => false

/-- `fopen(path, "r")` followed by the directory check: the content if the path can be read -/
def openFile (pe : PEnv) (p : Bytes) : Option Bytes :=
  match pe.fs p with
  | some (.reg, content) => some content
  | some (.dev, content) => some content
  | _ => none

/-- `cfg_tilde_expand` -/
def tildeExpand (pe : PEnv) (name : Bytes) : Bytes :=
  match name with
  | t :: r =>
    if t = 126 then
      (match r with
       | [] => (match pe.passwd none with | some h => h ++ r | none => name)
       | c :: _ =>
         if c = c_slash then (match pe.passwd none with | some h => h ++ r | none => name)
         else
           let user := r.takeWhile (· != c_slash)
           let file := r.dropWhile (· != c_slash)
           (match pe.passwd (some user) with | some h => h ++ file | none => name))
    else name
  | [] => name

/-- `cfg_searchpath(p, file)` with `p` non-NULL: oldest directory first -/
def searchpath (pe : PEnv) (dirs : List Bytes) (file : Bytes) : Option Bytes :=
  if file.head? == some c_slash then (if isRegular pe file then some file else none)
  else (dirs.reverse.map (fun d => d ++ [c_slash] ++ file)).find? (isRegular pe)

def resolveFile (pe : PEnv) (name : Bytes) : Option Bytes :=
  if pe.dirs.isEmpty then some (tildeExpand pe name) else searchpath pe pe.dirs name

/-- `cfg_lexer_include` -/
def doInclude (pe : PEnv) (m : PM) (fname : Bytes) : PM :=
  let m := { m with pendingInclude := none }
  match m.frames with
  | [] => m
  | f :: rest =>
    if m.srcs.length - 1 ≥ pe.maxInc then m.rejectWith f rest .includeDepth
    else match resolveFile pe fname with
      | none => m.rejectWith f rest .includeNotFound
      | some xf =>
        (match openFile pe xf with
         | some content =>
           let f' := { f with cfg := f.cfg.setInfo { f.cfg.info with filename := some xf, line := 1 } }
           { m with frames := f' :: rest,
                    srcs := { rest := content, savedFile := f.cfg.info.filename, savedLine := f.cfg.info.line } :: m.srcs }
         | none => m.rejectWith f rest .includeOpen)

inductive StartCond | initial | dq | sq | comment
deriving DecidableEq, Repr, Inhabited

/-- the scanner entered in a given flex start condition -/
def lexFrom (env : Env) (sc : StartCond) (inp : Bytes) : LexOut :=
  match sc with
  | .initial => lexInitial env 0 inp
  | .dq => dqRun env ⟨.plain, [], 0⟩ inp
  | .sq => sqRun .plain [] 0 inp
  | .comment => commentRun [] 0 inp

/-- the parse loop; `sc` is the start condition of the *first* scanner call, every later call happens
between tokens, where the condition is INITIAL -/
def parseLoopFrom (orc : Oracle) (pe : PEnv) : Nat → StartCond → PM → PM
  | 0, _, m => if m.status == .running then { m with status := .outOfFuel } else m
  | fuel + 1, sc, m =>
    if m.status != .running then m else
    match m.srcs with
    | [] => m
    | src :: srcs =>
      let o := lexFrom pe.env sc src.rest
      if o.tok == .eof && !srcs.isEmpty then
        -- end of an included source: restore the includer's position and go on there
        (match m.frames with
         | f :: rest =>
           let f' := { f with cfg := f.cfg.setInfo { f.cfg.info with filename := src.savedFile, line := src.savedLine } }
           parseLoopFrom orc pe fuel .initial { m with frames := f' :: rest, srcs := srcs }
         | [] => m)
      else
        let m1 := pstep orc { m with srcs := { src with rest := o.rest } :: srcs } o.tok o.nl
        let m2 := match m1.pendingInclude with
          | some fname => if m1.status == .running then doInclude pe m1 fname else m1
          | none => m1
        parseLoopFrom orc pe fuel .initial m2

def parseLoop (orc : Oracle) (pe : PEnv) (fuel : Nat) (m : PM) : PM := parseLoopFrom orc pe fuel .initial m

structure ParseOut where
  cfg : Cfg
  rc : Int               -- 0 success, 1 parse error, -1 file error
  diags : List Diag      -- in order
  trace : List CbCall    -- in order
  maxDepth : Nat
  incLeft : Nat          -- include levels still open when the parse ended (before the unwind)
  incAfter : Nat := 0    -- ... and after `cfg_lexer_include_unwind(depth)`
  fuelOut : Bool
deriving Inhabited

/-- a generous bound on the number of scanner calls: every call consumes a byte or pops a source -/
def fuelFor (pe : PEnv) (text : Bytes) : Nat := 1000000000 + text.length + pe.maxInc

/-- what `cfg_parse_fp` hands back once the loop has stopped -/
def finishParse (c1 : Cfg) (m : PM) (k0 : Nat) : ParseOut :=
  { cfg := (match collapse m.frames with | some f => f.cfg | none => c1),
    rc := if m.status == .accepted then 0 else 1, diags := m.diags.reverse,
    trace := (m.trace.reverse.drop k0), maxDepth := m.maxDepth, incLeft := m.srcs.length - 1,
    incAfter := (m.srcs.length - 1) - (m.srcs.length - 1),
    fuelOut := m.status == .outOfFuel }

/-- the machine `cfg_parse_fp` starts -/
def startPM (c1 : Cfg) (text : Bytes) (k0 : Nat) : PM :=
  { frames := [{ cfg := c1 }], srcs := [{ rest := text }], trace := List.replicate k0 (CbCall.free []) }

/-- `cfg_parse_fp` once the file name is settled -/
def parseFp (orc : Oracle) (pe : PEnv) (c : Cfg) (text : Bytes) (k0 : Nat := 0) : ParseOut :=
  finishParse (c.setLine 1) (parseLoop orc pe (fuelFor pe text) (startPM (c.setLine 1) text k0)) k0

def bufName : Bytes := [91, 98, 117, 102, 93]        -- "[buf]"
def fileName : Bytes := [70, 73, 76, 69]             -- "FILE"

/-- `cfg_parse_buf` -/
def parseBuf (orc : Oracle) (pe : PEnv) (c : Cfg) (text : Bytes) (k0 : Nat := 0) : ParseOut :=
  parseFp orc pe (c.setFilename (some bufName)) text k0

/-- `cfg_parse_fp` on a caller-supplied stream: always reported as "FILE" (fix F41: it used to keep the name an
earlier parse into the same context had left behind) -/
def parseStream (orc : Oracle) (pe : PEnv) (c : Cfg) (text : Bytes) (k0 : Nat := 0) : ParseOut :=
  parseFp orc pe (c.setFilename (some fileName)) text k0

/-- `cfg_parse` -/
def parseFile (orc : Oracle) (pe : PEnv) (c : Cfg) (name : Bytes) (k0 : Nat := 0) : ParseOut :=
  match resolveFile pe name with
  | none => { cfg := c, rc := -1, diags := [], trace := [], maxDepth := 0, incLeft := 0, fuelOut := false }
  | some fn =>
    let c1 := c.setFilename (some fn)
    match openFile pe fn with
    | some content => parseFp orc pe c1 content k0
    | none => { cfg := c1, rc := -1, diags := [], trace := [], maxDepth := 0, incLeft := 0, fuelOut := false }

end Confuse
