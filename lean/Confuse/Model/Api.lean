import Confuse.Model.Parser
import Confuse.Model.Print
/-!
# The public API on one context: by-name setters (with the pre-set validator), list set/append,
bulk set, set-from-text, annotations, section add/remove, getters by path, validator
registration, release.
-/
namespace Confuse

structure ApiOut where
  cfg : Cfg
  rc : Int                   -- CFG_SUCCESS 0 / CFG_FAIL -1 (for pointer results: 0 non-NULL, -1 NULL)
  diags : List DiagCls := []
  calls : List CbCall := []
deriving Inhabited

def modOpt (c : Cfg) (r : OptRef) (f : Opt → Opt × Bool × List CbCall) (ds : List DiagCls) : ApiOut :=
  match c.getOpt r with
  | some o =>
    let (o', ok, ev) := f o
    ⟨c.setOpt r o', if ok then 0 else -1, ds, ev⟩
  | none => ⟨c, -1, ds, []⟩

/-- `cfg_opt_setnint` etc.: type check, then `setnVal` -/
def optSetn (ty : Ty) (v : Val) (idx : Nat) (o : Opt) : Opt × Bool × List CbCall :=
  if o.ty != ty then (o, false, []) else setnVal o v idx

/-- `cfg_setnint`, `cfg_setnfloat`, `cfg_setnbool`, `cfg_setnstr`: look up, pre-set validation, store -/
def apiSetn (orc : Oracle) (k : Nat) (c : Cfg) (path : Bytes) (ty : Ty) (v : Val) (idx : Nat) (byName : Bool) : ApiOut :=
  let p := getoptPath c path
  match p.ref with
  | none => ⟨c, -1, p.diags, []⟩
  | some r =>
    match c.getOpt r with
    | none => ⟨c, -1, p.diags, []⟩
    | some o =>
      if byName && o.info.valid2Cb then
        -- (fix F54: cfg_setnbool() did not consult the callback; it is handed a pointer to the boolean, shown as 0 / 1)
        let call : CbCall := match v with
          | .int n => .valid2int o.name n
          | .flt b => .valid2flt o.name b
          | .str s => .valid2str o.name s
          | .bool b => .valid2int o.name (if b then 1 else 0)
          | _ => .valid2int o.name 0
        match orc k call with
        | .fail => ⟨c, -1, p.diags ++ [.callback], [call]⟩
        | res =>
          -- the validator may rewrite a number through the pointer it is given
          let v' : Val := match res, v with
            | .int n, .int _ => .int n
            | .flt b, .flt _ => .flt b
            | _, _ => v
          let out := modOpt c r (optSetn ty v' idx) p.diags
          { out with calls := call :: out.calls }
      else modOpt c r (optSetn ty v idx) p.diags

def isListOpt (o : Opt) : Bool := o.flags.list

/-- `cfg_setlist` / `cfg_addlist`; elements that do not fit the option's type are what a caller
cannot pass through the variadic interface, so the driver never builds them -/
def apiList (c : Cfg) (path : Bytes) (vs : List Val) (append : Bool) : ApiOut :=
  let p := getoptPath c path
  match p.ref with
  | none => ⟨c, -1, p.diags, []⟩
  | some r =>
    match c.getOpt r with
    | none => ⟨c, -1, p.diags, []⟩
    | some o =>
      if !o.flags.list then ⟨c, -1, p.diags, []⟩
      else
        let vs' := if o.ty == .int || o.ty == .float || o.ty == .bool || o.ty == .str then vs else []
        let (o', ev) := if append then addlist o vs' else setlist o vs'
        ⟨c.setOpt r o', 0, p.diags, ev⟩

/-- `cfg_setmulti` -/
def apiSetmulti (orc : Oracle) (k : Nat) (c : Cfg) (path : Bytes) (values : List (Option Bytes)) : ApiOut :=
  let p := getoptPath c path
  match p.ref with
  | none => ⟨c, -1, p.diags, []⟩
  | some r =>
    match c.getOpt r with
    | none => ⟨c, -1, p.diags, []⟩
    | some o =>
      let (o', ok, ds, cs) := setmulti orc k c.info o values
      ⟨c.setOpt r o', if ok then 0 else -1, p.diags ++ ds, cs⟩

/-- `cfg_setopt(cfg, cfg_getopt(cfg, path), value)` -/
def apiSetopt (orc : Oracle) (k : Nat) (c : Cfg) (path : Bytes) (value : Option Bytes) : ApiOut :=
  let p := getoptPath c path
  match p.ref with
  | none => ⟨c, -1, p.diags, []⟩
  | some r =>
    match c.getOpt r with
    | none => ⟨c, -1, p.diags, []⟩
    | some o =>
      let out := setopt orc k c.info o value
      ⟨c.setOpt r out.opt, if out.res.isSome then 0 else -1, p.diags ++ out.diags, out.calls⟩

/-- `cfg_setcomment` -/
def apiSetcomment (c : Cfg) (path : Bytes) (comment : Option Bytes) : ApiOut :=
  let p := getoptPath c path
  match p.ref, comment with
  | some r, some cm =>
    modOpt c r (fun o => (.mk o.info { o.flags with comments := true, modified := true } o.subs o.vals (some cm), true, [])) p.diags
  | _, _ => ⟨c, -1, p.diags, []⟩

/-- `cfg_addtsec` -/
def apiAddtsec (orc : Oracle) (k : Nat) (c : Cfg) (path : Bytes) (title : Option Bytes) : ApiOut :=
  -- cfg_gettsec(cfg, name, title): NULL title = nothing looked up
  let p1 : PathOut := match title with | some _ => getoptPath c path | none => ⟨none, 0, []⟩
  let exists_ : Bool :=
    match title, p1.ref.bind c.getOpt with
    | some t, some o => o.flags.title && o.ty == .sec && (gettsecidx o t).isSome
    | _, _ => false
  if exists_ then ⟨c, -1, p1.diags, []⟩
  else
    let p2 := getoptPath c path
    match p2.ref with
    | none => ⟨c, -1, p1.diags ++ p2.diags ++ [.noSuchOption], []⟩
    | some r =>
      match c.getOpt r with
      | none => ⟨c, -1, p1.diags ++ p2.diags, []⟩
      | some o =>
        -- only sections can be added; one that is found by its title needs one; and the title exists if
        -- `cfg_setopt` would find it (the context's case rule), so that an add never replaces (fix F37)
        if o.ty != .sec || (title.isNone && o.flags.title) then ⟨c, -1, p1.diags ++ p2.diags, []⟩
        else if o.flags.title && (match title with | some t => (findTitle c.info.flags.nocase t o.vals 0).isSome | none => false) then
          ⟨c, -1, p1.diags ++ p2.diags, []⟩
        else
        let out := setopt orc k c.info o title
        match out.res with
        | none => ⟨c.setOpt r out.opt, -1, p1.diags ++ p2.diags ++ out.diags, out.calls⟩
        | some i =>
          let o' := match out.opt.vals[i]? with
            | some (.sec s) => out.opt.setVals (listSet out.opt.vals i (.sec (s.setLine 1)))
            | _ => out.opt
          ⟨c.setOpt r o', 0, p1.diags ++ p2.diags ++ out.diags, out.calls⟩

/-- `cfg_rmnsec` -/
def apiRmnsec (c : Cfg) (path : Bytes) (idx : Nat) : ApiOut :=
  let p := getoptPath c path
  match p.ref with
  | some r => modOpt c r (fun o => rmnsec o idx) p.diags
  | none => ⟨c, -1, p.diags, []⟩

/-- `cfg_rmtsec` -/
def apiRmtsec (c : Cfg) (path : Bytes) (title : Bytes) : ApiOut :=
  let p := getoptPath c path
  match p.ref with
  | some r => modOpt c r (fun o => rmtsec o title) p.diags
  | none => ⟨c, -1, p.diags, []⟩

/-- `cfg_rmsec` -/
def apiRmsec (c : Cfg) (path : Bytes) : ApiOut :=
  let p := getoptSecidx c path true
  match p.ref with
  | some r => if p.index < 0 then ⟨c, -1, p.diags, []⟩ else modOpt c r (fun o => rmnsec o p.index.toNat) p.diags
  | none => ⟨c, -1, p.diags, []⟩

/-- `cfg_getsec`: the position of the section, as the path of (option, instance) steps -/
def apiGetsec (c : Cfg) (path : Bytes) : Option (List (Nat × Nat)) × List DiagCls :=
  let p := getoptSecidx c path true
  match p.ref with
  | some r =>
    if p.index < 0 then (none, p.diags)
    else match c.getOpt r with
      | some o =>
        if o.ty == .sec && p.index.toNat < o.vals.length then (some (r.steps ++ [(r.leaf, p.index.toNat)]), p.diags)
        else (none, p.diags)
      | none => (none, p.diags)
  | none => (none, p.diags)

/-! ## `cfg_getopt_array`: the schema-level resolver used when registering validators -/

def findDeclIdx (nocase : Bool) (name : Bytes) : List Decl → Nat → Option Nat
  | [], _ => none
  | d :: ds, i => if titleEq nocase d.info.name name then some i else findDeclIdx nocase name ds (i + 1)

def setDeclAt (f : OptInfo → OptInfo) : List Decl → Nat → List Decl
  | [], _ => []
  | .mk i fl s :: ds, 0 => .mk (f i) fl s :: ds
  | d :: ds, n + 1 => d :: setDeclAt f ds n

/-- walk declarations only (inside a multi section's template) -/
def regInDecls (nocase : Bool) (f : OptInfo → OptInfo) : Nat → List Decl → Bytes → Option (List Decl)
  | 0, _, _ => none
  | fuel + 1, ds, name =>
    let seg := name.takeWhile (· != c_pipe)
    let after := name.drop seg.length
    if after.isEmpty then
      (match findDeclIdx nocase name ds 0 with
       | some i => some (setDeclAt f ds i)
       | none => none)
    else if seg.isEmpty then regInDecls nocase f fuel ds (after.dropWhile (· == c_pipe))
    else
      match findDeclIdx nocase seg ds 0 with
      | none => none
      | some i =>
        match ds[i]? with
        | some (.mk info fl subs) =>
          if info.ty != .sec then none
          else (regInDecls nocase f fuel subs (after.dropWhile (· == c_pipe))).map
                 (fun subs' => listSet ds i (.mk info fl subs'))
        | none => none

/-- walk live options: a non-multi section with an instance continues in the instance, anything
else in the declaration template -/
def regInOpts (nocase : Bool) (f : OptInfo → OptInfo) : Nat → List Opt → Bytes → Option (List Opt)
  | 0, _, _ => none
  | fuel + 1, os, name =>
    let seg := name.takeWhile (· != c_pipe)
    let after := name.drop seg.length
    if after.isEmpty then
      (match findOptIdx nocase name os 0 with
       | some i => (os[i]?).map (fun o => listSet os i (o.setInfo (f o.info)))
       | none => none)
    else if seg.isEmpty then regInOpts nocase f fuel os (after.dropWhile (· == c_pipe))
    else
      match findOptIdx nocase seg os 0 with
      | none => none
      | some i =>
        match os[i]? with
        | some o =>
          if o.ty != .sec then none
          else
            let rest := after.dropWhile (· == c_pipe)
            (match o.flags.multi, o.vals[0]? with
             | false, some (Val.sec s) =>
               (regInOpts nocase f fuel s.opts rest).map
                 (fun os' => listSet os i (o.setVals (listSet o.vals 0 (.sec (s.setOpts os')))))
             | _, _ =>
               (regInDecls nocase f fuel o.subs rest).map
                 (fun subs' => listSet os i (.mk o.info o.flags subs' o.vals o.comment)))
        | none => none

/-- `cfg_set_validate_func` / `cfg_set_validate_func2` -/
def apiRegister (c : Cfg) (path : Bytes) (f : OptInfo → OptInfo) : Cfg × Bool :=
  match regInOpts c.flags.nocase f (path.length + 2) c.opts path with
  | some os => (c.setOpts os, true)
  | none => (c, false)

/-- `cfg_free`: the release callbacks it makes -/
def apiFree (c : Cfg) : List CbCall := freeEvCfg c

end Confuse
