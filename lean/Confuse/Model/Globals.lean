import Confuse.Model.Parser
/-!
# The scanner's process-global state across calls

`lexer.l` keeps, outside any context: the flex start condition, the include stack pointer, the
buffer stack, and the scratch buffer.  `parseFpG` is `cfg_parse_fp` with that state made explicit:
what it reads of it on entry and what it leaves behind.
-/
namespace Confuse

structure ScanG where
  sc : StartCond := .initial      -- yy_start
  incDepth : Nat := 0             -- cfg_include_stack_ptr
  bufDepth : Nat := 0             -- height of the flex buffer stack
  qbuf : Bool := false            -- cfg_qstring allocated
deriving DecidableEq, Repr, Inhabited

/-- `cfg_scan_fp_begin`: push a buffer; a new source always starts in INITIAL -/
def scanBegin (g : ScanG) : ScanG := { g with bufDepth := g.bufDepth + 1, sc := .initial }

/-- `cfg_scan_fp_end`: release the scratch buffer, pop the buffer -/
def scanEnd (g : ScanG) : ScanG := { g with bufDepth := g.bufDepth - 1, qbuf := false }

/-- where an aborted scan leaves the start condition -/
def scAfterError : LexErr → StartCond
  | .unterminatedString => .dq
  | .unterminatedComment => .comment
  | .badOctal => .dq
  | .badEscape => .dq

/-- `cfg_parse_fp` with the scanner globals: entry state `g`, result and exit state -/
def parseFpG (g : ScanG) (orc : Oracle) (pe : PEnv) (c : Cfg) (text : Bytes) : ParseOut × ScanG :=
  let g1 := scanBegin g
  let m := parseLoopFrom orc pe (fuelFor pe text) g1.sc (startPM (c.setLine 1) text 0)
  -- an aborted scan leaves the start condition wherever it was; included sources still open are
  -- unwound to the depth at entry (cfg_lexer_include_unwind), each unwinding pops its buffer
  let scOut : StartCond := match m.diags.head? with
    | some d => (match d.cls with
      | .unterminatedString => .dq | .unterminatedComment => .comment | .badOctal => .dq | .badEscape => .dq
      | _ => .initial)
    | none => .initial
  (finishParse (c.setLine 1) m 0, scanEnd { g1 with sc := scOut, incDepth := g.incDepth })

end Confuse
