import Confuse.Basic
/-!
# Data model: flags, declarations, values / options / contexts, callbacks as an oracle
-/
namespace Confuse

/-- `cfg_flag_t` as one Bool per bit (bit numbers in `toNat`) -/
structure Flags where
  multi : Bool := false          -- 0
  list : Bool := false           -- 1
  nocase : Bool := false         -- 2
  title : Bool := false          -- 3
  nodefault : Bool := false      -- 4
  noTitleDupes : Bool := false   -- 5
  reset : Bool := false          -- 6
  definit : Bool := false        -- 7
  ignoreUnknown : Bool := false  -- 8
  deprecated : Bool := false     -- 9
  drop : Bool := false           -- 10
  comments : Bool := false       -- 11
  modified : Bool := false       -- 12
  keystrval : Bool := false      -- 13
deriving DecidableEq, Repr, Inhabited

def Flags.toNat (f : Flags) : Nat :=
  (if f.multi then 1 else 0) + (if f.list then 2 else 0) + (if f.nocase then 4 else 0) +
  (if f.title then 8 else 0) + (if f.nodefault then 16 else 0) + (if f.noTitleDupes then 32 else 0) +
  (if f.reset then 64 else 0) + (if f.definit then 128 else 0) + (if f.ignoreUnknown then 256 else 0) +
  (if f.deprecated then 512 else 0) + (if f.drop then 1024 else 0) + (if f.comments then 2048 else 0) +
  (if f.modified then 4096 else 0) + (if f.keystrval then 8192 else 0)

def Flags.ofNat (n : Nat) : Flags :=
  { multi := n.testBit 0, list := n.testBit 1, nocase := n.testBit 2, title := n.testBit 3,
    nodefault := n.testBit 4, noTitleDupes := n.testBit 5, reset := n.testBit 6, definit := n.testBit 7,
    ignoreUnknown := n.testBit 8, deprecated := n.testBit 9, drop := n.testBit 10, comments := n.testBit 11,
    modified := n.testBit 12, keystrval := n.testBit 13 }

inductive Ty | int | float | str | bool | sec | func | ptr
deriving DecidableEq, Repr, Inhabited

inductive FuncKind | none | incl | user
deriving DecidableEq, Repr, Inhabited

/-- the non-recursive part of a `cfg_opt_t` declaration (and of its per-context copy) -/
structure OptInfo where
  name : Bytes
  ty : Ty
  defInt : Int := 0
  defFlt : Nat := 0                       -- bit pattern
  defBool : Bool := false
  defStr : Option Bytes := none
  defList : Option (List Bytes) := none   -- `def.parsed`, already split into value tokens
  parseCb : Bool := false
  validCb : Bool := false
  valid2Cb : Bool := false
  printCb : Bool := false
  freeCb : Bool := false
  func : FuncKind := .none
  simple : Bool := false                  -- CFG_SIMPLE_*: the value cell is a variable of the caller (see `mkOpt`)
deriving DecidableEq, Repr, Inhabited

/-- the caller's declaration tree (`cfg_opt_t[]` ending in `CFG_END()`) -/
inductive Decl where
  | mk (info : OptInfo) (flags : Flags) (subs : List Decl)
deriving Repr, Inhabited

def Decl.info : Decl → OptInfo | .mk i _ _ => i
def Decl.flags : Decl → Flags | .mk _ f _ => f
def Decl.subs : Decl → List Decl | .mk _ _ s => s

/-- the non-recursive part of a `cfg_t` -/
structure CfgInfo where
  name : Bytes
  title : Option Bytes := none
  flags : Flags := {}
  filename : Option Bytes := none
  line : Nat := 0
  pff : Option (List Bytes) := none       -- print filter: names it hides
deriving DecidableEq, Repr, Inhabited

mutual
inductive Val where
  | int (n : Int)
  | flt (bits : Nat)
  | bool (b : Bool)
  | str (s : Option Bytes)
  | ptr (p : Option Bytes)     -- user pointer, identified by the token it was made from
  | sec (c : Cfg)
inductive Opt where
  | mk (info : OptInfo) (flags : Flags) (subs : List Decl) (vals : List Val) (comment : Option Bytes)
inductive Cfg where
  | mk (info : CfgInfo) (opts : List Opt)
end

instance : Inhabited Cfg := ⟨.mk default []⟩
instance : Inhabited Val := ⟨.int 0⟩
instance : Inhabited Opt := ⟨.mk default {} [] [] none⟩

def Opt.info : Opt → OptInfo | .mk i _ _ _ _ => i
def Opt.flags : Opt → Flags | .mk _ f _ _ _ => f
def Opt.subs : Opt → List Decl | .mk _ _ s _ _ => s
def Opt.vals : Opt → List Val | .mk _ _ _ v _ => v
def Opt.comment : Opt → Option Bytes | .mk _ _ _ _ c => c
def Opt.name (o : Opt) : Bytes := o.info.name
def Opt.ty (o : Opt) : Ty := o.info.ty
def Opt.setFlags (o : Opt) (f : Flags) : Opt := .mk o.info f o.subs o.vals o.comment
def Opt.setVals (o : Opt) (v : List Val) : Opt := .mk o.info o.flags o.subs v o.comment
def Opt.setComment (o : Opt) (c : Option Bytes) : Opt := .mk o.info o.flags o.subs o.vals c
def Opt.setInfo (o : Opt) (i : OptInfo) : Opt := .mk i o.flags o.subs o.vals o.comment

def Cfg.info : Cfg → CfgInfo | .mk i _ => i
def Cfg.opts : Cfg → List Opt | .mk _ o => o
def Cfg.setInfo (c : Cfg) (i : CfgInfo) : Cfg := .mk i c.opts
def Cfg.setOpts (c : Cfg) (o : List Opt) : Cfg := .mk c.info o
def Cfg.flags (c : Cfg) : Flags := c.info.flags
def Cfg.line (c : Cfg) : Nat := c.info.line
def Cfg.setLine (c : Cfg) (n : Nat) : Cfg := c.setInfo { c.info with line := n }
def Cfg.setFilename (c : Cfg) (f : Option Bytes) : Cfg := c.setInfo { c.info with filename := f }

/-! ## diagnostics and callbacks -/

inductive DiagCls
  | noSuchOption | invalidInt | rangeInt | invalidFloat | rangeFloat | invalidBool | dupTitle
  | unexpectedToken | prematureEof | unexpectedBrace | appendNonList | missingEq | missingBrace
  | missingTitle | missingParen | funcSyntax | deprecatedDrop | deprecatedKeep
  | unterminatedString | unterminatedComment | badOctal | badEscape
  | includeDepth | includeNotFound | includeOpen | includeArgs | noSubSection
  | callback | noParseCb | other
deriving DecidableEq, Repr, Inhabited

structure Diag where
  file : Option Bytes
  line : Nat
  cls : DiagCls
deriving DecidableEq, Repr, Inhabited

/-- what a validation callback can see of the option it is called for -/
inductive Snap | int (n : Int) | flt (b : Nat) | bool (b : Bool) | str (s : Option Bytes) | ptr (p : Option Bytes) | sec (title : Option Bytes)
deriving DecidableEq, Repr, Inhabited

def Val.snap : Val → Snap
  | .int n => .int n | .flt b => .flt b | .bool b => .bool b | .str s => .str s | .ptr p => .ptr p
  | .sec c => .sec c.info.title

inductive CbCall
  | parse (opt : Bytes) (tok : Option Bytes)       -- value parsing callback
  | valid (opt : Bytes) (vals : List Snap)         -- post-store validation callback
  | valid2int (opt : Bytes) (v : Int)              -- pre-set validation (by-name setters)
  | valid2flt (opt : Bytes) (v : Nat)
  | valid2str (opt : Bytes) (v : Option Bytes)
  | func (opt : Bytes) (args : List Bytes)         -- function option
  | free (p : Bytes)                               -- release function for a pointer value
deriving DecidableEq, Repr, Inhabited

inductive CbRes
  | fail
  | ok                          -- validation passed / function succeeded
  | int (n : Int) | flt (b : Nat) | bool (b : Bool) | str (s : Option Bytes) | ptr (p : Option Bytes)
deriving DecidableEq, Repr, Inhabited

/-- callbacks as an oracle: the k-th invocation (k = length of the trace so far) and the call
decide the result.  Theorems quantify over all oracles. -/
abbrev Oracle := Nat → CbCall → CbRes

end Confuse
