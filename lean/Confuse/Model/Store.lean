import Confuse.Model.Types
import Confuse.Model.Num
/-!
# Store model: `cfg_dupopt_array`/`cfg_init_defaults`, `cfg_free_value`, `cfg_addval`,
`cfg_setopt`, `cfg_opt_getval` and the typed setters, `cfg_opt_setmulti`, section removal.

Each function mirrors the C function of the same name, including the RESET / MODIFIED /
DEFINIT bit handling.  Functions working on one option take the `CfgInfo` of the context that
the C code passes as `cfg` (used for flags, file name and line only).
-/
namespace Confuse

/-! ## release: the user-visible effect of freeing is the call of the release function -/

mutual
def freeEvVal (freeCb : Bool) : Val → List CbCall
  | .ptr (some p) => if freeCb then [.free p] else []
  | .sec c => freeEvCfg c
  | _ => []
def freeEvVals (freeCb : Bool) : List Val → List CbCall
  | [] => []
  | v :: vs => freeEvVal freeCb v ++ freeEvVals freeCb vs
def freeEvOpt : Opt → List CbCall
  | .mk i _ _ vals _ => freeEvVals i.freeCb vals
def freeEvOpts : List Opt → List CbCall
  | [] => []
  | o :: os => freeEvOpt o ++ freeEvOpts os
def freeEvCfg : Cfg → List CbCall
  | .mk _ opts => freeEvOpts opts
end

/-- `cfg_free_value`: drops the values, and the annotation unless the option is pristine -/
def freeValue (o : Opt) : Opt × List CbCall :=
  (.mk o.info o.flags o.subs [] (if o.flags.reset then o.comment else none), freeEvOpt o)

/-! ## creation: `cfg_dupopt_array` + `cfg_init_defaults` -/

def convTok (ty : Ty) (tok : Bytes) : Option Val :=
  match ty with
  | .int => (match convInt tok with | .ok n => some (.int n) | .error _ => none)
  | .float => (match convFloat tok with | .ok b => some (.flt b) | .error _ => none)
  | .bool => (convBool tok).map .bool
  | .str => some (.str (some tok))
  | _ => none

def sectionInfo (ci : CfgInfo) (name : Bytes) (oflags : Flags) (title : Option Bytes) : CfgInfo :=
  { name := name, title := title,
    flags := { ci.flags with keystrval := ci.flags.keystrval || oflags.keystrval },
    filename := ci.filename, line := ci.line, pff := none }

mutual
/-- one entry of the copied array with its default materialised -/
def mkOpt (ci : CfgInfo) : Decl → Opt
  | .mk info flags subs =>
    -- CFG_SIMPLE_*: the option's one value cell is a variable of the caller's.  The model keeps that cell where every
    -- scalar option keeps its cell (`vals = [cell]`); it starts out holding what the variable holds (written in the
    -- declaration's default column), and `cfg_init_defaults` leaves the option alone: no DEFINIT, no RESET
    if info.simple then
      .mk info flags subs (match info.ty with
        | .int => [.int info.defInt]
        | .float => [.flt info.defFlt]
        | .bool => [.bool info.defBool]
        | .str => [.str info.defStr]
        | _ => []) none
    else if flags.nodefault then .mk info flags subs [] none
    else if info.ty != .sec then
      let f1 := { flags with definit := true }
      if flags.list || info.defList.isSome then
        match info.defList with
        | none => .mk info f1 subs [] none                    -- list without default: stays uninitialised
        | some toks =>
          let vs := toks.filterMap (convTok info.ty)
          let vs := if flags.list then vs else vs.reverse.take 1
          -- the default text goes through cfg_parse_internal, whose end-of-input handling
          -- drops the values of a deprecated+drop option again
          let vs := if flags.deprecated && flags.drop then [] else vs
          .mk info { f1 with reset := true, modified := false } subs vs none
      else
        let vs : List Val :=
          match info.ty with
          | .int => [.int info.defInt]
          | .float => [.flt info.defFlt]
          | .bool => [.bool info.defBool]
          | .str => [.str info.defStr]
          | _ => []
        .mk info { f1 with reset := true, modified := false } subs vs none
    else if !flags.multi then
      let si := sectionInfo ci info.name flags none
      .mk info { flags with modified := true, definit := true } subs [.sec (.mk si (mkOpts si subs))] none
    else .mk info flags subs [] none
def mkOpts (ci : CfgInfo) : List Decl → List Opt
  | [] => []
  | d :: ds => mkOpt ci d :: mkOpts ci ds
end

/-- the section instance `cfg_setopt()` builds for a section option -/
def mkSection (ci : CfgInfo) (o : Opt) (title : Option Bytes) : Cfg :=
  let si := sectionInfo ci o.name o.flags title
  .mk si (mkOpts si o.subs)

def rootName : Bytes := [114, 111, 111, 116]

/-- `cfg_init` -/
def cfgInit (decls : List Decl) (flags : Flags) : Cfg :=
  let ci : CfgInfo := { name := rootName, flags := flags }
  .mk ci (mkOpts ci decls)

/-! ## `cfg_setopt` -/

inductive Conv
  | int (n : Int) | flt (b : Nat) | bool (b : Bool) | str (s : Bytes) | ptr (p : Option Bytes) | sec
deriving Repr

structure SetOut where
  opt : Opt
  res : Option Nat          -- `none`: NULL was returned; `some i`: the cell written
  diags : List DiagCls
  calls : List CbCall
deriving Inhabited

def titleEq (nocase : Bool) (a b : Bytes) : Bool := if nocase then eqNoCase a b else a == b

def findTitle (nocase : Bool) (t : Bytes) : List Val → Nat → Option Nat
  | [], _ => none
  | .sec c :: vs, i =>
    (match c.info.title with
     | some t' => if titleEq nocase t t' then some i else findTitle nocase t vs (i + 1)
     | none => findTitle nocase t vs (i + 1))
  | _ :: vs, i => findTitle nocase t vs (i + 1)

/-- the conversion half of `cfg_setopt` (runs first since the convert-before-store fix) -/
def setoptConvert (orc : Oracle) (k : Nat) (o : Opt) (value : Option Bytes) :
    Except (List DiagCls × List CbCall) (Conv × List CbCall) :=
  let call := CbCall.parse o.name value
  match o.ty with
  | .int =>
    if o.info.parseCb then
      (match orc k call with | .int n => .ok (.int n, [call]) | _ => .error ([.callback], [call]))
    else (match value with
      | none => .error ([], [])
      | some v => (match convInt v with
        | .ok n => .ok (.int n, [])
        | .error .range => .error ([.rangeInt], [])
        | .error _ => .error ([.invalidInt], [])))
  | .float =>
    if o.info.parseCb then
      (match orc k call with | .flt b => .ok (.flt b, [call]) | _ => .error ([.callback], [call]))
    else (match value with
      | none => .error ([], [])
      | some v => (match convFloat v with
        | .ok b => .ok (.flt b, [])
        | .error .range => .error ([.rangeFloat], [])
        | .error _ => .error ([.invalidFloat], [])))
  | .str =>
    if o.info.parseCb then
      (match orc k call with
       | .str (some s) => .ok (.str s, [call])
       | .str none => .error ([], [call])
       | _ => .error ([.callback], [call]))
    else (match value with
      | none => .error ([], [])
      | some v => .ok (.str v, []))
  | .bool =>
    if o.info.parseCb then
      (match orc k call with | .bool b => .ok (.bool b, [call]) | _ => .error ([.callback], [call]))
    else (match value with
      | none => .error ([.invalidBool], [])          -- cfg_parse_boolean(NULL) fails, reported
      | some v => (match convBool v with
        | some b => .ok (.bool b, [])
        | none => .error ([.invalidBool], [])))
  | .ptr =>
    if o.info.parseCb then
      (match orc k call with | .ptr p => .ok (.ptr p, [call]) | _ => .error ([.callback], [call]))
    else .error ([.noParseCb], [])
  | .sec => .ok (.sec, [])
  | .func => .error ([.other], [])

def listSet {α} : List α → Nat → α → List α
  | [], _, _ => []
  | _ :: xs, 0, y => y :: xs
  | x :: xs, n + 1, y => x :: listSet xs n y

/-- the RESET rule: a pristine option loses its defaults on the first store -/
def dropDefaults (o : Opt) : Opt × List CbCall :=
  if o.flags.reset then
    ((freeValue o).1.setFlags { (freeValue o).1.flags with reset := false }, (freeValue o).2)
  else (o, [])

/-- the cell that is written: (index, new value list, release callbacks) -/
def setoptStore (ci : CfgInfo) (o1 : Opt) (cv : Conv) (value : Option Bytes) (append : Bool) (found : Option Nat) :
    Nat × List Val × List CbCall :=
  let n := o1.vals.length
  -- index of the cell and whether it is new (cfg_addval also sets MODIFIED)
  let idx : Nat := if append then (match found with | some i => i | none => n) else 0
  let isNew : Bool := append && found.isNone
  let old : Option Val := if isNew then none else o1.vals[idx]?
  let nv : Val :=
    match cv with
    | .int v => .int v
    | .flt b => .flt b
    | .bool b => .bool b
    | .str s => .str (some s)
    | .ptr p => .ptr p
    | .sec =>
      (match old with
       | some (.sec c) => if o1.flags.multi then .sec (mkSection ci o1 value) else .sec c
       | _ => .sec (mkSection ci o1 value))
  let ev2 : List CbCall :=
    match cv, old with
    | .ptr _, some (.ptr (some q)) => if o1.info.freeCb then [.free q] else []
    | .sec, some (.sec c) => if o1.flags.multi then freeEvCfg c else []
    | _, _ => []
  (idx, if isNew then o1.vals ++ [nv] else listSet o1.vals idx nv, ev2)

def setopt (orc : Oracle) (k : Nat) (ci : CfgInfo) (o : Opt) (value : Option Bytes) : SetOut :=
  match setoptConvert orc k o value with
  | .error e => ⟨o, none, e.1, e.2⟩
  | .ok p =>
    -- locate the cell
    let o1 := (dropDefaults o).1
    let ev1 := (dropDefaults o).2
    let n := o1.vals.length
    let append := n == 0 || o1.flags.multi || o1.flags.list
    if append && o1.ty == .sec && o1.flags.title && n != 0 && value.isNone then
      ⟨o1, none, [], p.2 ++ ev1⟩
    else
      let found : Option Nat :=
        if append && o1.ty == .sec && o1.flags.title then
          (match value with | some t => findTitle ci.flags.nocase t o1.vals 0 | none => none)
        else none
      if found.isSome && o1.flags.noTitleDupes then ⟨o1, none, [.dupTitle], p.2 ++ ev1⟩
      else
        let st := setoptStore ci o1 p.1 value append found
        ⟨.mk o1.info { o1.flags with modified := true } o1.subs st.2.1 o1.comment, some st.1, [], p.2 ++ ev1 ++ st.2.2⟩

/-! ## `cfg_opt_getval` + typed setters -/

/-- `cfg_opt_setn{int,float,bool,str}` once the type check passed -/
def setnVal (o : Opt) (v : Val) (index : Nat) : Opt × Bool × List CbCall :=
  if index != 0 && !o.flags.list && !o.flags.multi then (o, false, [])
  else
    let (o1, ev) : Opt × List CbCall :=
      if o.flags.reset then
        let (o', ev) := freeValue o
        (o'.setFlags { o'.flags with reset := false }, ev)
      else (o, [])
    let vals' := if index ≥ o1.vals.length then o1.vals ++ [v] else listSet o1.vals index v
    (.mk o1.info { o1.flags with modified := true } o1.subs vals' o1.comment, true, ev)

/-! ## `cfg_opt_setmulti` -/

def setmultiLoop (orc : Oracle) (k : Nat) (ci : CfgInfo) : Opt → List (Option Bytes) → List DiagCls → List CbCall →
    Opt × Bool × List DiagCls × List CbCall
  | o, [], ds, cs => (o, true, ds, cs)
  | o, v :: vs, ds, cs =>
    let r := setopt orc (k + cs.length) ci o v
    match r.res with
    | none => (r.opt, false, ds ++ r.diags, cs ++ r.calls)
    | some _ => setmultiLoop orc k ci r.opt vs (ds ++ r.diags) (cs ++ r.calls)

def setmulti (orc : Oracle) (k : Nat) (ci : CfgInfo) (o : Opt) (values : List (Option Bytes)) :
    Opt × Bool × List DiagCls × List CbCall :=
  if values.isEmpty then (o, false, [], [])
  else
    let o0 : Opt := .mk o.info o.flags o.subs [] none
    let (o1, ok, ds, cs) := setmultiLoop orc k ci o0 values [] []
    if ok then
      -- release the old values, keep the annotation
      let evOld := freeEvOpt o
      (.mk o1.info { o1.flags with modified := true } o1.subs o1.vals o.comment, true, ds, cs ++ evOld)
    else
      -- ouch, revert
      let evNew := freeEvOpt o1
      (.mk o1.info { o1.flags with reset := o.flags.reset, modified := o.flags.modified } o1.subs o.vals o.comment,
        false, ds, cs ++ evNew)

/-! ## lists -/

/-- `cfg_addlist_internal`: one `cfg_opt_setn*` per element at index `nvalues` -/
def addlistInternal : Opt → List Val → Opt × List CbCall
  | o, [] => (o, [])
  | o, v :: vs =>
    let (o1, _, ev) := setnVal o v o.vals.length
    let (o2, ev2) := addlistInternal o1 vs
    (o2, ev ++ ev2)

def valMatches (ty : Ty) : Val → Bool
  | .int _ => ty == .int | .flt _ => ty == .float | .bool _ => ty == .bool | .str _ => ty == .str
  | _ => false

/-- `cfg_setlist` after the option was found and is a list -/
def setlist (o : Opt) (vs : List Val) : Opt × List CbCall :=
  let (o1, ev) := freeValue o
  let (o2, ev2) := addlistInternal o1 vs
  (o2, ev ++ ev2)

/-- `cfg_addlist` after the option was found and is a list -/
def addlist (o : Opt) (vs : List Val) : Opt × List CbCall :=
  addlistInternal (o.setFlags { o.flags with reset := false }) vs

/-! ## sections -/

/-- `cfg_opt_gettsecidx` (note: case rule taken from the *option's* flags) -/
def gettsecidx (o : Opt) (title : Bytes) : Option Nat :=
  let rec go : List Val → Nat → Option Nat
    | [], _ => none
    | .sec c :: vs, i =>
      (match c.info.title with
       | some t => if titleEq o.flags.nocase title t then some i else go vs (i + 1)
       | none => none)
    | _ :: _, _ => none
  go o.vals 0

/-- `cfg_opt_rmnsec` -/
def rmnsec (o : Opt) (index : Nat) : Opt × Bool × List CbCall :=
  if o.ty != .sec then (o, false, [])
  else if index ≥ o.vals.length then (o, false, [])
  else if index != 0 && !o.flags.list && !o.flags.multi then (o, false, [])
  else
    let ev := match o.vals[index]? with | some (.sec c) => freeEvCfg c | _ => []
    (o.setVals (o.vals.eraseIdx index), true, ev)

/-- `cfg_opt_rmtsec` -/
def rmtsec (o : Opt) (title : Bytes) : Opt × Bool × List CbCall :=
  if !o.flags.title then (o, false, [])
  else match gettsecidx o title with
    | some i => rmnsec o i
    | none => (o, false, [])

end Confuse
