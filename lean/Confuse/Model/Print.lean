import Confuse.Model.Path
/-!
# Print model: `cfg_print_pff_indent`, `cfg_opt_print_pff_indent`, `cfg_opt_nprint_var`
-/
namespace Confuse

/-- `cfg_print_quoted`: a double-quoted string the scanner reads back unchanged -/
def escBody : Bytes → Bytes
  | [] => []
  | c :: cs =>
    if c = c_dq then c_bs :: c_dq :: escBody cs
    else if c = c_bs then c_bs :: c_bs :: escBody cs
    else if c = c_dollar then
      (match cs with
       | d :: _ => if d = c_lbr then c_bs :: c_dollar :: escBody cs else c :: escBody cs
       | [] => c :: escBody cs)
    else c :: escBody cs

def printQuoted (s : Option Bytes) : Bytes := c_dq :: escBody (s.getD []) ++ [c_dq]

def indentBytes (n : Nat) : Bytes := List.replicate (2 * n) c_sp

def hasSlashSlash : Bytes → Bool
  | a :: b :: rest => (a == c_slash && b == c_slash) || hasSlashSlash (b :: rest)
  | _ => false

/-- a name the scanner reads back as one word (`strcspn` over the word delimiters, no `//`) -/
def isPlainName (n : Bytes) : Bool := !n.isEmpty && n.all isWordByte && !hasSlashSlash n

/-- `cfg_print_name`: as it is when it is a plain word, otherwise as a quoted string -/
def printName (n : Bytes) : Bytes := if isPlainName n then n else printQuoted (some n)

def bTrue : Bytes := [116, 114, 117, 101]
def bFalse : Bytes := [102, 97, 108, 115, 101]

/-- `cfg_opt_nprint_var(opt, index)`; a missing cell reads as 0 / 0.0 / false / NULL -/
def nprintVar (ty : Ty) (v : Option Val) : Bytes :=
  match ty with
  | .int => printInt (match v with | some (.int n) => n | _ => 0)
  | .float => printF6 (Dbl.ofBits (match v with | some (.flt b) => b | _ => 0))
  | .str => printQuoted (match v with | some (.str s) => s | _ => none)
  | .bool => if (match v with | some (.bool b) => b | _ => false) then bTrue else bFalse
  | _ => []

/-- contains the end-of-comment marker `*/` -/
def hasStarSlash : Bytes → Bool
  | a :: b :: rest => (a == c_star && b == c_slash) || hasStarSlash (b :: rest)
  | _ => false

/-- the marker taken apart: `*/` becomes `* /` -/
def apartMarker : Bytes → Bytes
  | a :: b :: rest => if a == c_star && b == c_slash then c_star :: c_sp :: apartMarker (b :: rest) else a :: apartMarker (b :: rest)
  | l => l

/-- `cfg_print_comment`: a C comment; a line comment when the text contains `*/` (and no newline);
otherwise the marker is taken apart -/
def printComment (c : Bytes) : Bytes :=
  if !hasStarSlash c then [c_slash, c_star, c_sp] ++ c ++ [c_sp, c_star, c_slash, c_nl]
  else if !c.contains c_nl then (if c.head? == some c_hash then [c_slash, c_slash] else [c_hash]) ++ [c_sp] ++ c ++ [c_nl]
  else [c_slash, c_star, c_sp] ++ apartMarker c ++ [c_sp, c_star, c_slash, c_nl]

/-- the harness' print callback writes `<name:index>` -/
def printCbOut (name : Bytes) (i : Nat) : Bytes := [60] ++ name ++ [c_colon] ++ decDigits i ++ [62]

def printValue (o : Opt) (i : Nat) : Bytes :=
  if o.info.printCb then printCbOut o.name i else nprintVar o.ty o.vals[i]?

def joinValues (o : Opt) : Nat → Nat → Bytes
  | 0, _ => []
  | n + 1, i => (if i == 0 then [] else [c_comma, c_sp]) ++ printValue o i ++ joinValues o n (i + 1)

def hides (pff : Option (List Bytes)) (name : Bytes) : Bool :=
  match pff with | some l => l.contains name | none => false

/-- `cfg->pff ? cfg->pff : fb_pff` -/
def effPff (own fb : Option (List Bytes)) : Option (List Bytes) :=
  match own with | some p => some p | none => fb

def isUnset (o : Opt) : Bool :=
  o.vals.isEmpty || (o.ty == .str && (match o.vals[0]? with | some (Val.str none) => true | _ => false))

mutual
def printVals (o : Opt) (pff : Option (List Bytes)) (indent : Nat) : List Val → Bytes
  | [] => []
  | .sec s :: vs =>
    indentBytes indent ++ printName o.name ++
      (if o.flags.title then [c_sp] ++ printQuoted s.info.title else []) ++ [c_sp, c_lbr, c_nl] ++
      printCfg pff (indent + 1) s ++ indentBytes indent ++ [c_rbr, c_nl] ++ printVals o pff indent vs
  | _ :: vs => printVals o pff indent vs
/-- `cfg_opt_print_pff_indent` -/
def printOpt (pff : Option (List Bytes)) (indent : Nat) : Opt → Bytes
  | .mk info flags subs vals comment =>
    let o : Opt := .mk info flags subs vals comment
    -- a pointer value has no text of its own: without a print callback nothing is written
    if info.ty == .ptr && !info.printCb then [] else
    (match comment with
     | some c => if flags.comments then indentBytes indent ++ printComment c else []
     | none => []) ++
    (if info.ty == .sec then printVals o pff indent vals
     else if info.ty != .func then
       (if flags.list then
          indentBytes indent ++ printName info.name ++ [c_sp, c_eq, c_sp, c_lbr] ++ joinValues o vals.length 0 ++ [c_rbr]
        else
          indentBytes indent ++ (if isUnset o then [c_hash, c_sp] else []) ++ printName info.name ++ [c_eq] ++ printValue o 0)
       ++ [c_nl]
     else if info.printCb then indentBytes indent ++ printCbOut info.name 0 ++ [c_nl]
     else [])
def printOpts (pff : Option (List Bytes)) (indent : Nat) : List Opt → Bytes
  | [] => []
  | o :: os => (if hides pff o.name then [] else printOpt pff indent o) ++ printOpts pff indent os
/-- `cfg_print_pff_indent(cfg, fp, fb_pff, indent)` -/
def printCfg (fb : Option (List Bytes)) (indent : Nat) : Cfg → Bytes
  | .mk info opts => printOpts (effPff info.pff fb) indent opts
end

/-- `cfg_print` -/
def cfgPrint (c : Cfg) : Bytes := printCfg none 0 c
/-- `cfg_opt_print` -/
def optPrint (o : Opt) : Bytes := printOpt none 0 o

end Confuse
