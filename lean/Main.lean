import Confuse.Driver
def main : IO Unit := do
  let i ← IO.getStdin
  let o ← IO.getStdout
  Confuse.Driver.loop i o {}
