#!/usr/bin/env python3
"""check.py <Cxx> [--tier quick|thorough] [--replay FILE]

One check = (1) proof gate: lake build + axiom audit of the property's theorems;
(2) tie: the model executable and the library built from /repo's working tree run the same
generated cases, their projected observations are diffed; (3) direct oracles on the
implementation alone; (4) classification against known_findings.json; (5) evidence.
Exit 0: property held on everything explored.  Exit 1 + "VIOLATION property=<id> replay=<path>".
"""
import argparse
import importlib
import json
import os
import random
import sys
import time

sys.path.insert(0, os.path.dirname(os.path.abspath(__file__)))
from vlib import core  # noqa: E402


def load_corpus(prop):
    """minimised past failures and seeded witnesses: run first in every run"""
    d = os.path.join(core.VERIF, "harness", "corpus", prop)
    cases = []
    if os.path.isdir(d):
        for fn in sorted(os.listdir(d)):
            if fn.endswith(".case"):
                cases += read_case_file(os.path.join(d, fn), prefix="corpus-" + fn[:-5] + "-")
    return cases


def read_case_file(path, prefix=""):
    cases = []
    cur = None
    for line in open(path):
        line = line.rstrip("\n")
        if not line or line.startswith("#"):
            continue
        if line.startswith("CASE "):
            cur = core.Case(prefix + line[5:].strip(), [], {"origin": os.path.basename(path)})
            cases.append(cur)
        elif cur is not None:
            cur.lines.append(line)
    return cases


def main():
    ap = argparse.ArgumentParser()
    ap.add_argument("prop")
    ap.add_argument("--tier", default=os.environ.get("VERIF_TIER", "quick"))
    ap.add_argument("--replay")
    args = ap.parse_args()
    prop = args.prop
    tier = args.tier if args.tier in ("quick", "thorough") else "quick"
    seed = core.get_seed()
    t0 = time.time()
    mod = importlib.import_module("vlib.props." + prop)
    violations = []      # (replay path, suffix)
    notes = []

    # ---- 1. proof gate
    rc, log = core.lake_build()
    theorems = list(getattr(mod, "THEOREMS", []))
    axioms = {}
    discharged = 0
    if rc != 0:
        p = core.write_replay(prop, "proof", "# lake build failed: the proof obligations of %s no longer check\n%s\n" % (prop, log[-4000:]))
        violations.append((p, " no-failing-input-found"))
    else:
        hits = core.grep_forbidden()
        axioms, atext = core.audit_theorems(prop, theorems)
        for t in theorems:
            a = axioms.get(t)
            if a is not None and set(a) <= core.ALLOWED_AXIOMS:
                discharged += 1
        if hits or discharged != len(theorems):
            bad = [t for t in theorems if axioms.get(t) is None or not set(axioms[t]) <= core.ALLOWED_AXIOMS]
            p = core.write_replay(prop, "proof", "# proof audit failed\n# forbidden tokens: %s\n# theorems missing or with foreign axioms: %s\n%s\n"
                                  % (hits, bad, atext[-3000:]))
            violations.append((p, " no-failing-input-found"))
        if tier == "thorough" and not violations:
            # every module of the property's theorems (Props/Cxx.lean and Props/Cxx<letter>.lean), re-checked independently
            pdir = os.path.join(core.LEAN, "Confuse", "Props")
            mods = sorted(f[:-5] for f in os.listdir(pdir) if f.endswith(".lean") and f.startswith(prop) and f[len(prop):-5].isalpha() or f == prop + ".lean")
            for mname in mods:
                ok, out = core.leanchecker("Confuse.Props." + mname)
                notes.append("leanchecker Confuse.Props.%s: %s" % (mname, "ok" if ok else "FAILED"))
                if not ok:
                    p = core.write_replay(prop, "proof", "# leanchecker rejected Confuse.Props.%s\n%s\n" % (mname, out))
                    violations.append((p, " no-failing-input-found"))
                    break

    # ---- 2..4 tie + oracles
    rng = random.Random(seed * 1000003 + sum(map(ord, prop)))
    stats = {}
    samples = []
    evaluations = 0
    distinct_nontrivial = 0
    known_printed = set()
    with core.Workdir() as wd:
        variant = getattr(mod, "VARIANT", "asan")
        exe, blog = core.build_impl(wd, variant)
        if exe is None:
            print("BUILD-FAILED: /repo's working tree does not compile:\n" + blog[-3000:])
            p = core.write_replay(prop, "build", "# the library does not build\n" + blog[-4000:])
            violations.append((p, " no-failing-input-found"))
            cases = []
        elif args.replay:
            cases = read_case_file(args.replay, prefix="replay-")
        else:
            cases = load_corpus(prop) + mod.generate(rng, tier)
        if exe is not None and cases:
            ctx = {"wd": wd, "exe": exe, "tier": tier, "rng": rng, "seed": seed}
            if hasattr(mod, "prepare"):
                mod.prepare(ctx)
            impl = core.run_impl(exe, cases, wd, case_timeout=getattr(mod, "CASE_TIMEOUT", 10))
            # a case that ran into its time limit while the machine was busy is run once more, with nothing beside it and four
            # times the limit: a hang is a hang at any load, slowness under foreign load is not a finding
            slow = [c for c in cases if "H timeout" in (impl.get(c.cid) or [])]
            if 0 < len(slow) <= 40:
                impl.update(core.run_impl(exe, slow, wd, tag="impl_again", case_timeout=4 * getattr(mod, "CASE_TIMEOUT", 10)))
            model = core.run_model(cases, wd)
            evaluations = len(cases)
            seen = set()
            findings = [f for f in core.load_findings() if f.get("property") == prop and f.get("status") == "open"]
            disagreements = []
            for c in cases:
                il = impl.get(c.cid)
                ml = model.get(c.cid)
                if il is None or ml is None:
                    disagreements.append((c, il or ["<no output>"], ml or ["<no output>"], "missing output"))
                    continue
                pi = mod.project(il, c)
                pm = mod.project(ml, c)
                d = c.digest()
                if d not in seen:
                    seen.add(d)
                    try:
                        if mod.nontrivial(c, ml):
                            distinct_nontrivial += 1
                    except KeyError:        # a corpus case carries no generator metadata
                        distinct_nontrivial += 1
                try:
                    for k, v in mod.stats(c, ml).items() if hasattr(mod, "stats") else []:
                        stats[k] = stats.get(k, 0) + v
                except KeyError:
                    stats["corpus_cases"] = stats.get("corpus_cases", 0) + 1
                why = None
                if pi != pm:
                    why = "model and implementation disagree"
                elif hasattr(mod, "oracle"):
                    try:
                        why = mod.oracle(c, il, ctx)
                    except KeyError:        # oracles that need generator metadata do not apply to corpus cases
                        why = None
                if why:
                    disagreements.append((c, il, ml, why))
            for c in cases[:3] + cases[len(cases) // 2: len(cases) // 2 + 2]:
                samples.append({"id": c.cid, "lines": c.lines[-6:], "meta": {k: str(v)[:200] for k, v in c.meta.items()}})
            # classify
            unknown = []
            for (c, il, ml, why) in disagreements:
                kf = None
                for f in findings:
                    rec = getattr(mod, "RECOGNIZERS", {}).get(f.get("recognizer"))
                    if rec and rec(c, il, ml):
                        kf = f
                        break
                if kf:
                    if kf["id"] not in known_printed:
                        known_printed.add(kf["id"])
                        print("KNOWN-FINDING: property=%s %s" % (prop, kf["what"]))
                else:
                    unknown.append((c, il, ml, why))
            stats["disagreements"] = len(disagreements)
            stats["explained_by_known_findings"] = len(disagreements) - len(unknown)
            if unknown:
                # report the smallest one; search for a failing input of the property itself
                unknown.sort(key=lambda t: sum(len(x) for x in t[0].lines))
                c, il, ml, why = unknown[0]
                failing = True
                if hasattr(mod, "confirm"):
                    failing = mod.confirm(c, il, ml, ctx)
                content = "# %s: %s\n# %d case(s) differ; this is the smallest\n%s# --- implementation said:\n%s\n# --- model said:\n%s\n" % (
                    prop, why, len(unknown), c.text(),
                    "\n".join("#   " + x for x in mod.project(il, c)[:60]),
                    "\n".join("#   " + x for x in mod.project(ml, c)[:60]))
                p = core.write_replay(prop, "case" if failing else "corr", content)
                violations.append((p, "" if failing else " no-failing-input-found"))

    # ---- 5. evidence
    wall = time.time() - t0
    coverage = {
        "obligations": max(1, len(theorems)),
        "discharged": discharged if theorems else 0,
        "checker_cmd": "cd /verif/lean && lake build && lake env lean <#print axioms for: %s>" % ", ".join(theorems),
        "trusted_base": core.TRUSTED_BASE,
        "theorems": theorems,
        "axioms": {t: axioms.get(t) for t in theorems},
        "evaluations": evaluations,
        "distinct_nontrivial": distinct_nontrivial,
        "rule": getattr(mod, "RULE", ""),
        "samples": samples or [{"note": "no cases were run"}],
        "distribution": stats,
        "partial": getattr(mod, "PARTIAL", ""),
        "notes": notes,
        "exhaustive": bool(getattr(mod, "EXHAUSTIVE", {}).get(tier, False)),
    }
    core.write_evidence(prop, tier, seed, coverage, wall, len(violations))
    for p, suffix in violations:
        print("VIOLATION property=%s replay=%s%s" % (prop, p, suffix))
    print("%s %s: %d cases, %d distinct non-trivial, %d/%d theorems, %.1fs, %s" % (
        prop, tier, evaluations, distinct_nontrivial, discharged, len(theorems), wall,
        "VIOLATIONS=%d" % len(violations) if violations else "ok"))
    sys.exit(1 if violations else 0)


if __name__ == "__main__":
    main()
